"""F25 (C10): after the public reset() of a source handler with an unretrieved PDU the queue is empty but the packets-ready
counter is stale, and cancel_request raises UnretrievedPdusToBeSent although nothing is queued.
Run: PYTHONPATH=/verif/harness:/repo/src /venv/bin/python findings/repro_F25.py   (exit 1 = defect present)"""
import sys

from world import World, mkcfg

w = World(mkcfg())
h = w.src
assert w.call("S", "put", w.put_request())["ret"] == "true"
w.call("S", "fsm", None, take=0)             # the Metadata PDU is generated and left in the queue
w.call("S", "reset")
e = w.call("S", "cancel", True)
print("after reset: counter", h.num_packets_ready, "queue", len(h._pdus_to_be_sent), "cancel_request ->", e["exc"], e["ret"])
sys.exit(1 if e["exc"] == "UnretrievedPdusToBeSent" and len(h._pdus_to_be_sent) == 0 else 0)

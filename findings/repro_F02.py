"""F02 (C04): destination awaiting the ACK of its Finished PDU, peer silent: at the positive ACK limit the fault cancels
the transaction, the completion is re-run and the ACK procedure restarts from 0 -- again and again.  Finished is re-sent
and Transaction-Finished re-indicated forever; the handler never becomes idle."""
from _common import *
w = World(mkcfg(ackLim=2))
w.call("S", "put", w.put_request())
sd = []
for _ in range(6):
    sd += w.call("S", "fsm", None)["_pdus"]
for p in sd:
    w.call("D", "fsm", p)
for _ in range(60):           # 30 virtual seconds of silence, interval 1 s, limit 2
    w.call("D", "fsm", None)
    Clock.now += 501
nfin = sum(1 for e in w.ev if e["side"] == "D" for o in e["out"] if o["t"] == "FIN")
nind = len(fins(w, "D"))
print("state", w.dst.state.name, "Finished PDUs", nfin, "Transaction-Finished indications", nind)
w.cleanup()
sys.exit(1 if w.dst.state.name != "IDLE" or nfin > 5 else 0)

"""F01 (C03): acknowledged mode, the single ACK (EOF) is lost.  The sender re-sends the EOF on every expiry; the receiver
(already awaiting the ACK of its Finished PDU) never acknowledges it again, and the sender refuses the Finished PDU
while it awaits the ACK (EOF).  Both sides run into their positive ACK limits: no recovery from ONE lost PDU."""
from _common import *
w = World(mkcfg(ackLim=3, nakLim=3))
w.call("S", "put", w.put_request())
def drop(link, i, p):
    return link == "ds" and type(p).__name__ == "AckPdu" and i == 0
ok = pump(w, drop)
fs, fd = fins(w, "S"), fins(w, "D")
print("sender:", fs, "receiver:", fd)
w.cleanup()
good = len(fs) == 1 and fs[0]["cond"] == "NO_ERROR" and len(fd) == 1 and fd[0]["cond"] == "NO_ERROR"
sys.exit(0 if good else 1)

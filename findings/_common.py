"""Helpers for the defect reproductions (each repro_Fxx.py exits 1 iff the defect manifests on /repo's tree)."""
import sys
sys.path.insert(0, "/verif/harness")
sys.path.insert(0, "/repo/src")
from world import *  # noqa


def pump(w, drop=None, max_rounds=200, tick=1001, entity=True):
    """Canonical entity loop: alternate S/D calls, deliver head of link; drop(link, idx, pdu)->bool."""
    sd, ds = [], []
    n = {"sd": 0, "ds": 0}
    closedD = closedS = False
    startedD = False
    quiet = 0
    for _ in range(max_rounds):
        for side, inq, outq, key in (("S", ds, sd, "ds"), ("D", sd, ds, "sd")):
            p = None
            while inq:
                c = inq.pop(0)
                i = n[key]
                n[key] += 1
                if drop and drop(key, i, c):
                    continue
                p = c
                break
            h = w.h[side]
            if entity and p is not None and h.state.name == "IDLE" and (closedD if side == "D" else closedS):
                if side == "D" and type(p).__name__ == "EofPdu":
                    from cfdppy.handler.dest import acknowledge_inactive_eof_pdu
                    outq.append(acknowledge_inactive_eof_pdu(copy.deepcopy(p), TransactionStatus.TERMINATED))
                elif side == "S" and type(p).__name__ == "FinishedPdu":
                    outq.append(AckPdu(p.pdu_header.pdu_conf, DirectiveType.FINISHED_PDU, p.condition_code, TransactionStatus.TERMINATED))
                continue
            e = w.call(side, "fsm", p)
            outq += e["_pdus"]
            if side == "D":
                if h.state.name == "BUSY":
                    startedD = True
                if startedD and h.state.name == "IDLE":
                    closedD = True
            elif h.state.name == "IDLE":
                closedS = True
        if not sd and not ds:
            if w.src.state.name == "IDLE" and w.dst.state.name == "IDLE":
                return True
            quiet += 1
            if quiet >= 2:
                Clock.now += tick
                quiet = 0
        else:
            quiet = 0
    return False


def fins(w, side):
    return [i for e in w.ev if e["side"] == side for i in e["ind"] if i["k"] == "finished"]


def excs(w):
    return [(e["side"], e["call"], e["arg"].get("t"), e["exc"], e["excw"]) for e in w.ev if e["exc"] != "none"]
sys.path.insert(0, "/tmp")

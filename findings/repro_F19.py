"""F19 (C12/C09): acknowledged mode, transfer cancelled mid-file: the EOF (cancel) PDU re-sent by the positive ACK
procedure carries the checksum of the WHOLE file together with file size = bytes sent, instead of the checksum of the
bytes sent (the first EOF (cancel) is correct)."""
from _common import *
w = World(mkcfg(ackLim=3))
w.call("S", "put", w.put_request())
for _ in range(2):
    w.call("S", "fsm", None)                 # MD, FD[0,4)
e1 = w.call("S", "cancel", True)
Clock.now += 1001
e2 = w.call("S", "fsm", None)
eof1 = [o for o in e1["out"] if o["t"] == "EOF"][0]
eof2 = [o for o in e2["out"] if o["t"] == "EOF"][0]
print("first EOF(cancel)", eof1["size"], eof1["chk"], " re-sent", eof2["size"], eof2["chk"])
w.cleanup()
sys.exit(0 if eof1["chk"] == eof2["chk"] and eof1["size"] == eof2["size"] else 1)

"""F14 (C17): NativeFilestore.remove_directory(non-empty dir, recursive=False) returns RENAME_NOT_PERFORMED -- a
refusal code of a different operation -- instead of a remove-directory refusal code."""
from _common import *
import tempfile
from cfdppy.filestore import NativeFilestore
d = Path(tempfile.mkdtemp()); (d / "sub").mkdir(); (d / "sub" / "f").write_bytes(b"x")
r = NativeFilestore().remove_directory(d / "sub", False)
print(r.name, "dir still there:", (d / "sub" / "f").exists())
shutil.rmtree(d)
sys.exit(0 if r.name.startswith("REMOVE_DIR_") and r.name != "REMOVE_DIR_SUCCESS" else 1)

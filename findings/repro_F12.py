"""F12 (C10/C20): a File Data PDU (wrong direction flag) offered to the source handler leaks AttributeError
('FileDataPdu' object has no attribute 'directive_type') instead of a protocol exception."""
from _common import *
w = World(mkcfg())
w.call("S", "put", w.put_request())
out = []
for _ in range(3):
    out += w.call("S", "fsm", None)["_pdus"]
fd = copy.deepcopy(out[1]); fd.pdu_header.pdu_conf.direction = Direction.TOWARDS_SENDER
e = w.call("S", "fsm", fd)
print("exception:", e["exc"], e["excw"])
w.cleanup()
sys.exit(0 if e["exc"] == "InvalidPduForSourceHandler" else 1)

"""F13 (C12): acknowledged mode, EOF (cancel) received while file data is missing: instead of finishing the transaction
with the EOF's condition the destination starts the deferred lost-segment procedure and NAKs the cancelled transfer."""
from _common import *
w = World(mkcfg())
w.call("S", "put", w.put_request())
out = []
for _ in range(3):
    out += w.call("S", "fsm", None)["_pdus"]          # MD, FD[0,4), FD[4,8)
w.call("S", "cancel", True)
out += w.call("S", "fsm", None)["_pdus"] or []
evs = [e for e in w.ev if e["side"] == "S"]
# deliver MD, FD[4,8) (FD[0,4) lost), then EOF(cancel)
cancel_eof = [w.conc(o) for e in evs for o in e["out"] if o["t"] == "EOF"][0]
w.call("D", "fsm", out[0]); w.call("D", "fsm", out[2])
w.call("D", "fsm", cancel_eof)
e = w.call("D", "fsm", None)
naks = [o for o in e["out"] if o["t"] == "NAK"]
fin = [o for o in e["out"] if o["t"] == "FIN"]
print("after EOF(cancel): step", e["post"]["step"], "NAKs", [n["reqs"] for n in naks], "Finished", [(f["cond"]) for f in fin], "ind", [i["k"] for i in e["ind"]])
w.cleanup()
sys.exit(1 if naks or not fin or fin[0]["cond"] != "CANCEL_REQUEST_RECEIVED" else 0)

"""F08 (C16): the source handler checks Path.exists() and open()s the source file directly instead of going through the
user-supplied virtual filestore: with a purely in-memory filestore the transfer fails (SourceFileDoesNotExist /
FileNotFoundError) although the file exists in the filestore."""
from _common import *
w = World(mkcfg(memfs=True))
w.call("S", "put", w.put_request())
ok = pump(w, max_rounds=40)
same = w.dfs.files.get(w.dstf.as_posix()) == bytearray(bytes(w.cfg["file"]))
print("done", ok, "identical", same, "exceptions", excs(w)[:3])
sys.exit(0 if ok and same and not excs(w) else 1)

"""F20 (C03): immediate NAK mode, the Metadata PDU and its first re-transmission are lost (2 faults, limits 3).  A
re-transmitted File Data PDU that reaches the receiver after the EOF but before the Metadata replaced the lost range
[0, EOF size) by [0, end of that PDU): the rest of the file was never re-requested, the transfer ended DATA_INCOMPLETE."""
from _common import *
sys.path.insert(0, "/verif/harness")
import pair
cfg = mkcfg(segLen=1, ackLim=3, nakLim=3, chkLim=3, file=[11, 12], closure=False, immNak=True)
H = [["S", 0], ["S", 0], ["S", 0], ["drop", 0], ["D", 1], ["S", 1], ["D", 1], ["S", 1], ["D", 1], ["S", 1], ["drop", 0], ["D", 1],
     ["S", 1], ["D", 1], ["S", 1], ["D", 1], ["S", 1], ["S", 0]] + [["D", 1]] * 7
t = pair.run_hist(cfg, H, 1, [])
fd = [i for e in t["ev"] if e["side"] == "D" for i in e["ind"] if i["k"] == "finished"]
print("receiver:", fd)
sys.exit(0 if len(fd) == 1 and fd[0]["deliv"] == "DATA_COMPLETE" else 1)

"""F07 (C11): _AckedModeParams.lost_seg_tracker defaulted to ONE shared LostSegmentTracker object for all transactions
and all handler instances: lost segments of a sibling handler's transaction leak into an unrelated transaction."""
from _common import *
wa = World(mkcfg(immNak=False))
wb = World(mkcfg(immNak=False))
# handler A: receives MD and the 3rd segment only (gap 0..8 tracked), stays mid-transaction
wa.call("S", "put", wa.put_request())
pa = []
for _ in range(5):
    pa += wa.call("S", "fsm", None)["_pdus"]
wa.call("D", "fsm", pa[0]); wa.call("D", "fsm", pa[3])
# handler B: complete loss-free transfer, must finish without any NAK
wb.call("S", "put", wb.put_request())
ok = pump(wb)
naks = [o for e in wb.ev for o in e["out"] if o["t"] == "NAK"]
print("B done", ok, "NAKs emitted by B:", [n["reqs"] for n in naks], "excs", excs(wb))
wa.cleanup(); wb.cleanup()
sys.exit(1 if (naks or not ok or excs(wb)) else 0)

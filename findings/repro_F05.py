"""F05 (C03/C01): deferred NAK mode, Metadata PDU lost: EOF arrives while metadata is missing, its checksum is not
stored; the completed file is later verified against b'' -> FILE_CHECKSUM_FAILURE, transfer reported incomplete."""
from _common import *
w = World(mkcfg(immNak=False, ackLim=4, nakLim=4))
w.call("S", "put", w.put_request())
done = pump(w, drop=lambda k, i, p: k == "sd" and i == 0)
fd = fins(w, "D")
bad = not done or not fd or fd[-1]["deliv"] != "DATA_COMPLETE" or any(f["cond"] == "FILE_CHECKSUM_FAILURE" for e in w.ev for f in e["flt"])
print("done", done, "dest finished:", fd, "faults:", [f for e in w.ev for f in e["flt"]])
import show; show.show(w) if "-v" in sys.argv else None
w.cleanup()
sys.exit(1 if bad else 0)

"""F04 (C03): deferred NAK mode, Metadata PDU lost: after the re-sent Metadata arrives the destination returns to
RECEIVING_FILE_DATA, where the deferred lost-segment procedure is never evaluated again -> hangs forever."""
from _common import *
w = World(mkcfg(immNak=False, ackLim=4, nakLim=4))
w.call("S", "put", w.put_request())
done = pump(w, drop=lambda k, i, p: k == "sd" and i == 0)
fd = fins(w, "D")
bad = not done
print("done", done, "dest finished:", fd, "faults:", [f for e in w.ev for f in e["flt"]])
import show; show.show(w) if "-v" in sys.argv else None
w.cleanup()
sys.exit(1 if bad else 0)

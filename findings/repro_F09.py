"""F09 (C08): a NAK segment request whose end reaches beyond the data sent so far / beyond the file is not rejected:
the source serves it, emitting File Data PDUs that are empty or lie outside the file."""
from _common import *
w = World(mkcfg())
w.call("S", "put", w.put_request())
out = []
for _ in range(6):
    out += w.call("S", "fsm", None)["_pdus"]       # MD, 3 x FD, EOF  (file = 12 bytes)
hdr = w.absp(out[0], observed=False)["h"]
nak = w.conc(dict(h=dict(hdr, dir="TS"), t="NAK", sos=0, eos=12, reqs=[[8, 20]]))
e = w.call("S", "fsm", nak)
fds = [(o["off"], len(o["data"])) for o in e["out"] if o["t"] == "FD"]
print("exception:", e["exc"], "re-sent File Data (offset, len):", fds)
w.cleanup()
sys.exit(1 if e["exc"] != "InvalidNakPdu" or any(off + n > 12 or n == 0 for off, n in fds) else 0)

"""F06 (C11/C10): a SourceHandler that already ran a transaction raises TypeError for an empty source file
(fp.file_size is None after reset; 'None > 2**32 - 1')."""
from _common import *
w = World(mkcfg(mode="UNACK"))
w.call("S", "put", w.put_request()); 
for _ in range(8): w.call("S", "fsm", None)
assert w.src.state.name == "IDLE"
w.srcf.write_bytes(b"")
w.call("S", "put", w.put_request())
e = w.call("S", "fsm", None)
print(e["exc"], e["excw"])
w.cleanup()
sys.exit(1 if e["exc"] != "none" else 0)

#!/bin/sh
# Offline setup: nothing to build. Verifies the tools and parses every specification module with SANY.
set -e
cd "$(dirname "$0")"
mkdir -p build evidence replays
command -v java >/dev/null
test -f /opt/veriftools/tla/tla2tools.jar
/venv/bin/python -c "import spacepackets, crcmod" 
for f in spec/*.tla; do
  out=$(cd spec && java -cp /opt/veriftools/tla/tla2tools.jar:/opt/veriftools/tla/CommunityModules-deps.jar tla2sany.SANY "$(basename "$f")" 2>&1) || { echo "SANY failed on $f"; exit 1; }
  # (SANY's exit status is 0 even when it reports semantic errors)
  if printf '%s' "$out" | grep -q "Semantic errors\|\*\*\* Errors\|Parse Error\|Could not parse"; then echo "SANY reports errors in $f"; printf '%s\n' "$out" | grep -A6 "Errors" | head -20; exit 1; fi
done
echo setup ok

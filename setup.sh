#!/bin/sh
# Offline setup: nothing to build. Verifies the tools and parses every specification module with SANY.
set -e
cd "$(dirname "$0")"
mkdir -p build evidence replays
command -v java >/dev/null
test -f /opt/veriftools/tla/tla2tools.jar
/venv/bin/python -c "import spacepackets, crcmod" 
for f in spec/*.tla; do
  (cd spec && java -cp /opt/veriftools/tla/tla2tools.jar:/opt/veriftools/tla/CommunityModules-deps.jar tla2sany.SANY "$(basename "$f")" >/dev/null 2>&1) || { echo "SANY failed on $f"; exit 1; }
done
echo setup ok

"""Developer tool: run registered checks against the seeded changes in /verif/seeded/<id>/patch.diff.
usage: mutants.py [--tier quick] [--props C01,C03] [--all-checks] [--jobs N] <seeded ids or prefixes ...>
Default: applies each patch to /repo (git apply), runs the check(s), ALWAYS reverts (git checkout -- .).
With --jobs N: each change gets its own scratch worktree of /repo's HEAD under /tmp (patch applied there, CFDP_REPO
pointing at it, build/evidence/replays redirected with CFDP_VERIF_OUT), N changes at a time, /repo itself untouched;
worktree and outputs are removed afterwards."""
import json
import os
import subprocess
import sys
import time
from pathlib import Path

VERIF = Path(__file__).resolve().parent.parent
VERIF_RUN = VERIF


def sh(cmd, **kw):
    return subprocess.run(cmd, shell=True, capture_output=True, text=True, **kw)


def report(name, p, c, t0):
    import re as _re
    lines = [l for l in c.stdout.splitlines() if l.startswith(("VIOLATION", "KNOWN-FINDING", "DRIFT", "MACHINERY"))]
    viol = [l for l in lines if l.startswith("VIOLATION")]
    drift = [l for l in lines if l.startswith("DRIFT")]
    m = _re.search(r'"clause": "([^"]+)"', viol[0]) if viol else None
    txt = [f"{name} check {p}: exit {c.returncode} ({time.time() - t0:.0f}s) violations={len(viol)} drift={'yes' if drift else 'no'}"]
    txt += ["    " + l[:420] for l in (viol[:2] + drift[:1] + [l for l in lines if l.startswith("MACHINERY")][:1])]
    if c.returncode not in (0, 1):
        txt.append("    " + c.stdout[-600:].replace("\n", "\n    "))
    print("\n".join(txt), flush=True)
    return (c.returncode, m.group(1) if m else "")


def one_scratch(d, run, tier):
    import os
    import shutil
    wt, out = Path(f"/tmp/mut/{d.name}"), Path(f"/tmp/mutout/{d.name}")
    res = {}
    sh(f"git -C /repo worktree remove --force {wt}")
    r = sh(f"mkdir -p /tmp/mut && git -C /repo worktree add --detach {wt} HEAD && git -C {wt} apply {d / 'patch.diff'}")
    try:
        if r.returncode != 0:
            print(d.name, "PATCH DOES NOT APPLY", r.stderr[:200])
            return res
        env = dict(os.environ, CFDP_REPO=str(wt), CFDP_VERIF_OUT=str(out))
        for p in run:
            t0 = time.time()
            c = sh(f"./check {p} --tier {tier}", cwd=VERIF_RUN, timeout=5400, env=env)
            res[(d.name, p)] = report(d.name, p, c, t0)
    finally:
        sh(f"git -C /repo worktree remove --force {wt}")
        shutil.rmtree(out, ignore_errors=True)
    return res


def main():
    args = sys.argv[1:]
    tier = "quick"
    props = None
    allc = False
    jobs = 0
    base = "seeded"
    ids = []
    while args:
        a = args.pop(0)
        if a == "--tier":
            tier = args.pop(0)
        elif a == "--props":
            props = args.pop(0).split(",")
        elif a == "--all-checks":
            allc = True
        elif a == "--jobs":
            jobs = int(args.pop(0))
        elif a == "--benign":       # behaviour-preserving changes in /verif/benign/<id>/patch.diff: every check must exit 0
            base, allc = "benign", True
        else:
            ids.append(a)
    claimed = [c["property_id"] for c in json.loads((VERIF / "MANIFEST.json").read_text())["checks"]]
    dirs = sorted(d for d in (VERIF / base).iterdir() if d.is_dir() and not d.name.startswith("_")
                  and (not ids or any(d.name.startswith(i) for i in ids)))
    results = {}
    if jobs:
        # the checks run from a private snapshot of /verif, so that /verif can be edited while a long matrix runs
        global VERIF_RUN
        snap = Path(f"/tmp/mutsnap_{os.getpid()}")
        sh(f"rm -rf {snap} && mkdir -p {snap} && rsync -a --exclude build --exclude replays --exclude evidence --exclude .git "
           f"--exclude seeded --exclude benign --exclude .scratch {VERIF}/ {snap}/")
        VERIF_RUN = snap
        from concurrent.futures import ThreadPoolExecutor
        with ThreadPoolExecutor(jobs) as ex:
            def which(d):
                if props:
                    return props
                f = d / "checks.txt"       # benign changes: the checks whose code the change touches
                if f.exists():
                    return f.read_text().split()
                return claimed if allc else [d.name.split("-")[0]]
            for part in ex.map(lambda d: one_scratch(d, which(d), tier), dirs):
                results.update(part)
        dirs = []
        sh(f"rm -rf {snap}")
    else:
        assert sh("git -C /repo status --porcelain").stdout.strip() == "", "repo not clean"
    for d in dirs:
        own = d.name.split("-")[0]
        run = props or (claimed if allc else [own])
        r = sh(f"git -C /repo apply {d / 'patch.diff'}")
        if r.returncode != 0:
            print(d.name, "PATCH DOES NOT APPLY", r.stderr[:200])
            continue
        try:
            for p in run:
                t0 = time.time()
                c = sh(f"./check {p} --tier {tier}", cwd=VERIF, timeout=3600)
                lines = [l for l in c.stdout.splitlines() if l.startswith(("VIOLATION", "KNOWN-FINDING", "DRIFT", "MACHINERY"))]
                viol = [l for l in lines if l.startswith("VIOLATION")]
                drift = [l for l in lines if l.startswith("DRIFT")]
                import re as _re
                m = _re.search(r'"clause": "([^"]+)"', viol[0]) if viol else None
                results[(d.name, p)] = (c.returncode, m.group(1) if m else "")
                print(f"{d.name} check {p}: exit {c.returncode} ({time.time() - t0:.0f}s) violations={len(viol)} drift={'yes' if drift else 'no'}")
                for l in (viol[:2] + drift[:1] + [l for l in lines if l.startswith("MACHINERY")][:1]):
                    print("    " + l[:420])
                if c.returncode not in (0, 1):
                    print("    " + c.stdout[-600:].replace("\n", "\n    "))
        finally:
            sh("git -C /repo checkout -- .")
    if not jobs:
        assert sh("git -C /repo status --porcelain").stdout.strip() == "", "repo not clean after run"
    if base == "benign":
        lines = ["# Behaviour-preserving changes vs. the registered checks (harness/mutants.py --benign, tier %s)" % tier, "",
                 "Every (change, check) pair must end with exit 0 (DRIFT lines are allowed: the specification is precise about",
                 "internal steps; VIOLATION or exit 2 is a false alarm / fragility of the machinery).", "",
                 "| change | check | exit |", "|---|---|---|"]
        for (name, p), (rc, clause) in sorted(results.items()):
            lines.append(f"| {name} | {p} | {rc} |")
        okc = sum(1 for v in results.values() if v[0] == 0)
        lines += ["", f"{okc} of {len(results)} pairs end with exit 0."]
        old = (VERIF / "benign" / "RESULTS.md")
        if ids or props:
            print("\n".join(lines))
        else:
            old.write_text("\n".join(lines) + "\n")
    elif not ids and not props:
        lines = ["# Seeded changes vs. the registered checks (last full run of harness/mutants.py, tier %s)" % tier, "",
                 "| change | check | exit | first VIOLATION clause |", "|---|---|---|---|"]
        for (name, p), (rc, clause) in sorted(results.items()):
            lines.append(f"| {name} | {p} | {rc} | {clause} |")
        caught = sum(1 for (n, p), (rc, c) in results.items() if rc == 1)
        lines += ["", f"{caught} of {len(results)} (change, own check) pairs end with exit 1 and a VIOLATION line."]
        (VERIF / "seeded" / "RESULTS.md").write_text("\n".join(lines) + "\n")


main()

"""Developer tool: run registered checks against the seeded changes in /verif/seeded/<id>/patch.diff.
usage: mutants.py [--tier quick] [--props C01,C03] [--all-checks] <seeded ids or prefixes ...>
Applies each patch to /repo (git apply), runs the check(s), ALWAYS reverts (git checkout -- .)."""
import json
import subprocess
import sys
import time
from pathlib import Path

VERIF = Path(__file__).resolve().parent.parent


def sh(cmd, **kw):
    return subprocess.run(cmd, shell=True, capture_output=True, text=True, **kw)


def main():
    args = sys.argv[1:]
    tier = "quick"
    props = None
    allc = False
    ids = []
    while args:
        a = args.pop(0)
        if a == "--tier":
            tier = args.pop(0)
        elif a == "--props":
            props = args.pop(0).split(",")
        elif a == "--all-checks":
            allc = True
        else:
            ids.append(a)
    claimed = [c["property_id"] for c in json.loads((VERIF / "MANIFEST.json").read_text())["checks"]]
    dirs = sorted(d for d in (VERIF / "seeded").iterdir() if d.is_dir() and not d.name.startswith("_")
                  and (not ids or any(d.name.startswith(i) for i in ids)))
    assert sh("git -C /repo status --porcelain").stdout.strip() == "", "repo not clean"
    results = {}
    for d in dirs:
        own = d.name.split("-")[0]
        run = props or (claimed if allc else [own])
        r = sh(f"git -C /repo apply {d / 'patch.diff'}")
        if r.returncode != 0:
            print(d.name, "PATCH DOES NOT APPLY", r.stderr[:200])
            continue
        try:
            for p in run:
                t0 = time.time()
                c = sh(f"./check {p} --tier {tier}", cwd=VERIF, timeout=3600)
                lines = [l for l in c.stdout.splitlines() if l.startswith(("VIOLATION", "KNOWN-FINDING", "DRIFT", "MACHINERY"))]
                viol = [l for l in lines if l.startswith("VIOLATION")]
                drift = [l for l in lines if l.startswith("DRIFT")]
                import re as _re
                m = _re.search(r'"clause": "([^"]+)"', viol[0]) if viol else None
                results[(d.name, p)] = (c.returncode, m.group(1) if m else "")
                print(f"{d.name} check {p}: exit {c.returncode} ({time.time() - t0:.0f}s) violations={len(viol)} drift={'yes' if drift else 'no'}")
                for l in (viol[:2] + drift[:1] + [l for l in lines if l.startswith("MACHINERY")][:1]):
                    print("    " + l[:420])
                if c.returncode not in (0, 1):
                    print("    " + c.stdout[-600:].replace("\n", "\n    "))
        finally:
            sh("git -C /repo checkout -- .")
    assert sh("git -C /repo status --porcelain").stdout.strip() == "", "repo not clean after run"
    if not ids and not props:
        lines = ["# Seeded changes vs. the registered checks (last full run of harness/mutants.py, tier %s)" % tier, "",
                 "| change | check | exit | first VIOLATION clause |", "|---|---|---|---|"]
        for (name, p), (rc, clause) in sorted(results.items()):
            lines.append(f"| {name} | {p} | {rc} | {clause} |")
        caught = sum(1 for (n, p), (rc, c) in results.items() if rc == 1)
        lines += ["", f"{caught} of {len(results)} (change, own check) pairs end with exit 1 and a VIOLATION line."]
        (VERIF / "seeded" / "RESULTS.md").write_text("\n".join(lines) + "\n")


main()

"""The observation interface: real SourceHandler / DestHandler objects inside a recording world.

* virtual clock (spacepackets.countdown.time_ms is replaced; the handlers have no other clock)
* recording user, fault handler, filestore (sandboxed NativeFilestore or in-memory), seq provider
* aliasing-free link: PDUs are handed over as deep copies
* one projection (`absp`) from concrete values to the abstract values of the TLA+ specification and
  one concretisation (`conc`) back; used in both directions (trace recording / schedule replay)

Nothing in here judges a property.
"""
from __future__ import annotations

import copy
import logging
import os
import shutil
import tempfile
import traceback
from datetime import timedelta
from pathlib import Path

if os.environ.get("CFDP_LINECOV"):
    import linecov  # noqa: F401  (developer tool: which lines of cfdppy do the executions reach)

import spacepackets.countdown as _cd
from spacepackets.cfdp import (ChecksumType, ConditionCode, CrcFlag, Direction, FaultHandlerCode,
                               LargeFileFlag, PduConfig, PduType, TransactionId, TransmissionMode)
from spacepackets.cfdp.pdu import (AckPdu, DirectiveType, EofPdu, FileDataPdu, FinishedPdu,
                                   KeepAlivePdu, MetadataParams, MetadataPdu, NakPdu, PromptPdu,
                                   TransactionStatus)
from spacepackets.cfdp.pdu.file_data import FileDataParams
from spacepackets.cfdp.pdu.finished import DeliveryCode, FileStatus, FinishedParams
from spacepackets.cfdp.pdu.helper import PduFactory
from spacepackets.cfdp.pdu.prompt import ResponseRequired
from spacepackets.cfdp.tlv import (CfdpTlv, EntityIdTlv, FaultHandlerOverrideTlv, FileStoreRequestTlv, FlowLabelTlv,
                                  MessageToUserTlv, TlvType)
from spacepackets.countdown import Countdown
from spacepackets.seqcount import ProvidesSeqCount
from spacepackets.util import ByteFieldGenerator, UnsignedByteField

import cfdppy.exceptions as X
from cfdppy import CfdpState
from cfdppy.filestore import NativeFilestore, VirtualFilestore, FilestoreResponseStatusCode
from cfdppy.handler.dest import DestHandler
from cfdppy.handler.source import SourceHandler
from cfdppy.mib import (CheckTimerProvider, DefaultFaultHandlerBase, IndicationCfg, LocalEntityCfg,
                        RemoteEntityCfg, RemoteEntityCfgTable)
from cfdppy.request import PutRequest
from cfdppy.user import CfdpUserBase

logging.disable(logging.CRITICAL)


class Clock:
    now = 1000


class Audit:
    """Host file accesses observed by a sys audit hook while a handler call runs (C16 diagnostic turned clause: with an
    in-memory filestore no handler call may open a host path of the pretended sandbox)."""
    active = False
    needle = ""
    seen: list = []
    installed = False

    @classmethod
    def install(cls):
        if cls.installed:
            return
        import sys

        def hook(event, args):
            if cls.active and event in ("open", "os.listdir", "os.mkdir", "os.remove", "os.rename", "os.rmdir", "os.truncate", "os.scandir"):
                try:
                    path = str(args[0])
                except Exception:  # noqa: BLE001
                    return
                if cls.needle and cls.needle in path:
                    cls.seen.append(event + ":" + path.replace(cls.needle, "<sandbox>"))
        sys.addaudithook(hook)
        cls.installed = True


def _time_ms() -> int:
    return Clock.now


_cd.time_ms = _time_ms

MODE = {"ACK": TransmissionMode.ACKNOWLEDGED, "UNACK": TransmissionMode.UNACKNOWLEDGED}
MODE_R = {v: k for k, v in MODE.items()}
CHK = {"NULL": ChecksumType.NULL_CHECKSUM, "CRC32": ChecksumType.CRC_32, "CRC32C": ChecksumType.CRC_32C,
       "MODULAR": ChecksumType.MODULAR}
CHK_R = {v: k for k, v in CHK.items()}
FH = {"cancel": FaultHandlerCode.NOTICE_OF_CANCELLATION, "ignore": FaultHandlerCode.IGNORE_ERROR,
      "abandon": FaultHandlerCode.ABANDON_TRANSACTION, "suspend": FaultHandlerCode.NOTICE_OF_SUSPENSION}
FH_CONDS = ["POSITIVE_ACK_LIMIT_REACHED", "NAK_LIMIT_REACHED", "CHECK_LIMIT_REACHED", "FILE_CHECKSUM_FAILURE",
            "FILE_SIZE_ERROR", "FILESTORE_REJECTION", "CANCEL_REQUEST_RECEIVED", "INACTIVITY_DETECTED",
            "KEEP_ALIVE_LIMIT_REACHED", "INVALID_TRANSMISSION_MODE", "UNSUPPORTED_CHECKSUM_TYPE"]
FH_DEFAULT = {c: "cancel" for c in FH_CONDS}
FH_DEFAULT["FILE_CHECKSUM_FAILURE"] = "ignore"
FH_DEFAULT["UNSUPPORTED_CHECKSUM_TYPE"] = "ignore"
IND_DEFAULT = dict(eofSent=True, eofRecv=True, segRecv=True, finished=True)

DEFAULT_CFG = dict(
    id=0, mode="ACK", closure=False, putMode="none", putClosure="none", segLen=4, maxPkt=512, crc=False,
    chk="CRC32", ackInt=1000, ackIntD=0, ackLim=2, nakInt=1000, nakLim=2, chkInt=1000, chkLim=2, immNak=True,
    disp=False, sIdW=2, dIdW=2, sId=1, dId=2, seqW=2, seq0=0, indS=IND_DEFAULT, indD=IND_DEFAULT,
    fhS=FH_DEFAULT, fhD=FH_DEFAULT, file=[48, 49, 50, 51, 52, 53, 54, 55, 56, 57, 65, 66], mdOnly=False,
    srcName="src.bin", dstName="dst.bin", dstShape="file", dstOld=[], msgs=[], xopts=[], memfs=False, more=[],
)


def xopts_kw(xopts) -> dict:
    """The non-message Metadata options of a put request (abstract: [{t, v}], t = TLV type 0 filestore request,
    4 fault handler override, 5 flow label; v = value bytes) -> PutRequest keyword arguments."""
    fs, fho, flow = [], [], None
    for o in xopts or []:
        raw = bytes([o["t"], len(o["v"])]) + bytes(o["v"])
        if o["t"] == 0:
            fs.append(FileStoreRequestTlv.unpack(raw))
        elif o["t"] == 4:
            fho.append(FaultHandlerOverrideTlv.unpack(raw))
        elif o["t"] == 5:
            flow = FlowLabelTlv.unpack(raw)
        else:
            raise ValueError(o)
    return dict(fs_requests=fs or None, fault_handler_overrides=fho or None, flow_label_tlv=flow)


def xopts_abs(r) -> list:
    """PutRequest -> its non-message Metadata options in the order the request lists them by kind."""
    tl = list(r.fs_requests or []) + list(r.fault_handler_overrides or []) + ([r.flow_label_tlv] if r.flow_label_tlv is not None else [])
    return [dict(t=int(x.tlv_type), v=list(x.value)) for x in tl]


def mkcfg(**kw) -> dict:
    c = copy.deepcopy(DEFAULT_CFG)
    for k, v in kw.items():
        if k not in c:
            raise KeyError(k)
        c[k] = copy.deepcopy(v)
    return c


def cname(c) -> str:
    try:
        return ConditionCode(c).name
    except ValueError:
        return f"COND_{int(c)}"


def limbs(b: bytes) -> list[int]:
    b = bytes(b).rjust(4, b"\0")[-4:]
    return [int.from_bytes(b[:2], "big"), int.from_bytes(b[2:], "big")]


def unlimbs(l) -> bytes:
    return int(l[0]).to_bytes(2, "big") + int(l[1]).to_bytes(2, "big")


# --------------------------------------------------------------------------------------------------
class RecUser(CfdpUserBase):
    def __init__(self, world, side, vfs):
        super().__init__(vfs)
        self.w = world
        self.side = side

    def _tid(self, t):
        if t is None:
            return dict(set=False, src=0, seq=0)
        return dict(set=True, src=t.source_id.value, seq=t.seq_num.value)

    def _log(self, rec):
        self.w.ind[self.side].append(rec)

    def transaction_indication(self, p):
        o = p.originating_transaction_id
        self._log(dict(k="transaction", tid=self._tid(p.transaction_id), orig=self._tid(o)))

    def eof_sent_indication(self, t):
        self._log(dict(k="eof_sent", tid=self._tid(t)))

    def transaction_finished_indication(self, p):
        fp = p.finished_params
        self._log(dict(k="finished", tid=self._tid(p.transaction_id), cond=cname(fp.condition_code),
                       deliv=fp.delivery_code.name, fstat=fp.file_status.name))

    def metadata_recv_indication(self, p):
        msgs = [list(m.value) for m in p.msgs_to_user] if p.msgs_to_user is not None else []
        self._log(dict(k="metadata_recv", tid=self._tid(p.transaction_id), src=p.source_id.value,
                       size=-1 if p.file_size is None else p.file_size,
                       srcName=self.w.rel(p.source_file_name), dstName=self.w.rel(p.dest_file_name), msgs=msgs))

    def file_segment_recv_indication(self, p):
        self._log(dict(k="seg_recv", tid=self._tid(p.transaction_id), off=p.offset, len=p.length))

    def report_indication(self, t, s):
        self._log(dict(k="report", tid=self._tid(t)))

    def suspended_indication(self, t, c):
        self._log(dict(k="suspended", tid=self._tid(t)))

    def resumed_indication(self, t, p):
        self._log(dict(k="resumed", tid=self._tid(t)))

    def fault_indication(self, t, c, p):
        self._log(dict(k="fault", tid=self._tid(t)))

    def abandoned_indication(self, t, c, p):
        self._log(dict(k="abandoned", tid=self._tid(t)))

    def eof_recv_indication(self, t):
        self._log(dict(k="eof_recv", tid=self._tid(t)))


class RecFH(DefaultFaultHandlerBase):
    def __init__(self, world, side, table):
        super().__init__()
        self.w = world
        self.side = side
        for c, code in table.items():
            if code != FH_DEFAULT.get(c):
                self.set_handler(ConditionCode[c], FH[code])

    def _log(self, kind, t, c, p):
        tid = dict(set=False, src=0, seq=0) if t is None else dict(set=True, src=t.source_id.value,
                                                                   seq=t.seq_num.value)
        self.w.flt[self.side].append(dict(k=kind, tid=tid, cond=cname(c), prog=p))

    def notice_of_suspension_cb(self, t, c, p):
        self._log("suspend", t, c, p)

    def notice_of_cancellation_cb(self, t, c, p):
        self._log("cancel", t, c, p)

    def abandoned_cb(self, t, c, p):
        self._log("abandon", t, c, p)

    def ignore_cb(self, t, c, p):
        self._log("ignore", t, c, p)


class RecFs(NativeFilestore):
    """NativeFilestore with a switch that makes the next write_data fail (destination write rejection)."""

    def __init__(self):
        super().__init__()
        self.reject_write = False
        self.writes = 0
        self.rejected = 0

    def write_data(self, file, data, offset):
        self.writes += 1
        if self.reject_write:
            self.rejected += 1
            raise PermissionError(str(file))
        return super().write_data(file, data, offset)

    # a rejecting filestore also refuses to create / truncate the destination file (read-only target):
    # FILESTORE_REJECTION while the Metadata PDU is handled (_init_vfs_handling)
    def create_file(self, file):
        if self.reject_write:
            self.rejected += 1
            raise PermissionError(str(file))
        return super().create_file(file)

    def truncate_file(self, file):
        if self.reject_write:
            self.rejected += 1
            raise PermissionError(str(file))
        return super().truncate_file(file)


class MemFs(VirtualFilestore):
    """Purely in-memory filestore: paths never exist on the host (C16)."""

    def __init__(self):
        self.files: dict[str, bytearray] = {}
        self.dirs: set[str] = set()
        self.reject_write = False
        self.writes = 0
        self.rejected = 0

    def _k(self, p):
        return Path(p).as_posix()

    def read_data(self, file, offset, read_len=None):
        k = self._k(file)
        if k not in self.files:
            raise FileNotFoundError(file)
        d = self.files[k]
        offset = offset or 0
        return bytes(d[offset:] if read_len is None else d[offset:offset + read_len])

    def read_from_opened_file(self, bytes_io, offset, read_len):
        bytes_io.seek(offset)
        return bytes_io.read(read_len)

    def is_directory(self, path):
        return self._k(path) in self.dirs

    def filename_from_full_path(self, path):
        return Path(path).name

    def file_exists(self, path):
        return self._k(path) in self.files or self._k(path) in self.dirs

    def truncate_file(self, file):
        if self.reject_write:
            self.rejected += 1
            raise PermissionError(str(file))
        if self._k(file) not in self.files:
            raise FileNotFoundError(file)
        self.files[self._k(file)] = bytearray()

    def file_size(self, file):
        if self._k(file) not in self.files:
            raise FileNotFoundError(file)
        return len(self.files[self._k(file)])

    def write_data(self, file, data, offset):
        self.writes += 1
        if self.reject_write:
            self.rejected += 1
            raise PermissionError(str(file))
        k = self._k(file)
        if k not in self.files:
            raise FileNotFoundError(file)
        d = self.files[k]
        offset = offset or 0
        if len(d) < offset:
            d.extend(b"\0" * (offset - len(d)))
        d[offset:offset + len(data)] = data

    def create_file(self, file):
        if self.reject_write:
            self.rejected += 1
            raise PermissionError(str(file))
        if self.file_exists(file):
            return FilestoreResponseStatusCode.CREATE_NOT_ALLOWED
        self.files[self._k(file)] = bytearray()
        return FilestoreResponseStatusCode.CREATE_SUCCESS

    def delete_file(self, file):
        k = self._k(file)
        if k in self.dirs:
            return FilestoreResponseStatusCode.DELETE_NOT_ALLOWED
        if k not in self.files:
            return FilestoreResponseStatusCode.DELETE_FILE_DOES_NOT_EXIST
        del self.files[k]
        return FilestoreResponseStatusCode.DELETE_SUCCESS

    def rename_file(self, o, n):
        return FilestoreResponseStatusCode.NOT_PERFORMED

    def replace_file(self, r, s):
        return FilestoreResponseStatusCode.NOT_PERFORMED

    def create_directory(self, d):
        if self.file_exists(d):
            return FilestoreResponseStatusCode.CREATE_DIR_CAN_NOT_BE_CREATED
        self.dirs.add(self._k(d))
        return FilestoreResponseStatusCode.CREATE_DIR_SUCCESS

    def remove_directory(self, d, recursive=False):
        return FilestoreResponseStatusCode.NOT_PERFORMED

    def list_directory(self, d, f, recursive=False):
        return FilestoreResponseStatusCode.NOT_PERFORMED

    def calculate_checksum(self, checksum_type, file_path, size_to_verify, segment_len=4096):
        # independent of the library's implementation: zlib / table-free CRC32C / modular sum
        import zlib
        if checksum_type == ChecksumType.NULL_CHECKSUM:
            return bytes(4)
        k = self._k(file_path)
        if k not in self.files:
            raise FileNotFoundError(file_path)
        d = bytes(self.files[k])
        if checksum_type == ChecksumType.MODULAR:
            s = 0
            for i in range(0, len(d), 4):
                s += int.from_bytes(d[i:i + 4].ljust(4, b"\0"), "big")
            return (s % 2**32).to_bytes(4, "big")
        d = d[:size_to_verify]
        if checksum_type == ChecksumType.CRC_32:
            return zlib.crc32(d).to_bytes(4, "big")
        if checksum_type == ChecksumType.CRC_32C:
            c = 0xFFFFFFFF
            for b in d:
                c ^= b
                for _ in range(8):
                    c = (c >> 1) ^ 0x82F63B78 if c & 1 else c >> 1
            return (c ^ 0xFFFFFFFF).to_bytes(4, "big")
        raise X.ChecksumNotImplemented(checksum_type)


class SeqProv(ProvidesSeqCount):
    def __init__(self, bits, start=0):
        self._bits = bits
        self.n = start
        self.calls = 0

    @property
    def max_bit_width(self):
        return self._bits

    @max_bit_width.setter
    def max_bit_width(self, w):
        self._bits = w

    def get_and_increment(self):
        v = self.n
        self.n = (self.n + 1) % (2 ** self._bits)
        self.calls += 1
        return v


class CTP(CheckTimerProvider):
    def __init__(self, ms):
        self.ms = ms

    def provide_check_timer(self, local_entity_id, remote_entity_id, entity_type):
        return Countdown(timedelta(milliseconds=self.ms))


# --------------------------------------------------------------------------------------------------
class World:
    """One source entity and one destination entity with private sandboxes <root>/s and <root>/d."""

    def __init__(self, cfg: dict, seqprov: SeqProv | None = None, root: Path | None = None, keep_clock: bool = False):
        self.cfg = cfg
        self.pair = False   # pair runs: source-side events carry the destination sandbox snapshot too (C01)
        if not keep_clock:
            Clock.now = 1000
        self.own_root = root is None
        self.root = Path(tempfile.mkdtemp(prefix="cfdpv_", dir=os.environ.get("CFDP_VERIF_TMP", None))) if root is None else root
        self.sdir = self.root / "s"
        self.ddir = self.root / "d"
        self.mem = bool(cfg.get("memfs"))
        if self.mem:
            # paths that do not exist on the host
            self.sdir = Path("/nonexistent_cfdpv") / self.root.name / "s"
            self.ddir = Path("/nonexistent_cfdpv") / self.root.name / "d"
            self.sfs = MemFs()
            self.dfs = MemFs()
            self.sfs.dirs.add(self.sdir.as_posix())
            self.dfs.dirs.add(self.ddir.as_posix())
        else:
            self.sdir.mkdir(parents=True, exist_ok=True)
            self.ddir.mkdir(parents=True, exist_ok=True)
            self.sfs = RecFs()
            self.dfs = RecFs()
        if self.mem:
            Audit.install()
            Audit.needle = self.root.name
        self.ind = {"S": [], "D": []}
        self.flt = {"S": [], "D": []}
        self.ev: list[dict] = []
        self.srcf = self.sdir / cfg["srcName"]
        self.put_file(self.sfs, self.srcf, bytes(cfg["file"]))
        self.dstf = self.ddir / cfg["dstName"]
        shape = cfg["dstShape"]
        if shape == "existing":
            self.put_file(self.dfs, self.dstf, bytes(cfg["dstOld"]))
        elif shape == "dir":
            self.mkdir(self.dfs, self.dstf)
        elif shape == "direxisting":
            self.mkdir(self.dfs, self.dstf)
            self.put_file(self.dfs, self.dstf / cfg["srcName"], bytes(cfg["dstOld"]))
        self.sid = ByteFieldGenerator.from_int(cfg["sIdW"], cfg["sId"])
        self.did = ByteFieldGenerator.from_int(cfg["dIdW"], cfg["dId"])

        def rc(eid, ack_int=None):
            return RemoteEntityCfg(
                entity_id=eid, max_packet_len=cfg["maxPkt"],
                max_file_segment_len=None if cfg["segLen"] == 0 else cfg["segLen"],
                closure_requested=cfg["closure"], crc_on_transmission=cfg["crc"],
                default_transmission_mode=MODE[cfg["mode"]], crc_type=CHK[cfg["chk"]],
                positive_ack_timer_interval_seconds=(ack_int or cfg["ackInt"]) / 1000.0,
                positive_ack_timer_expiration_limit=cfg["ackLim"],
                nak_timer_interval_seconds=cfg["nakInt"] / 1000.0, nak_timer_expiration_limit=cfg["nakLim"],
                check_limit=cfg["chkLim"], immediate_nak_mode=cfg["immNak"],
                disposition_on_cancellation=cfg["disp"])

        self.tbl_s = RemoteEntityCfgTable([rc(self.did)])
        # the receiver's own positive ACK interval (Finished PDU) may differ from the sender's (ackIntD, 0 = the same)
        self.tbl_d = RemoteEntityCfgTable([rc(self.sid, cfg.get("ackIntD") or None)])

        def icfg(i):
            return IndicationCfg(eof_sent_indication_required=i["eofSent"], eof_recv_indication_required=i["eofRecv"],
                                 file_segment_recvd_indication_required=i["segRecv"],
                                 transaction_finished_indication_required=i["finished"])

        self.seqprov = seqprov or SeqProv(cfg["seqW"] * 8, cfg["seq0"])
        self.fh = {"S": RecFH(self, "S", cfg["fhS"]), "D": RecFH(self, "D", cfg["fhD"])}
        self.user = {"S": RecUser(self, "S", self.sfs), "D": RecUser(self, "D", self.dfs)}
        self.src = SourceHandler(LocalEntityCfg(self.sid, icfg(cfg["indS"]), self.fh["S"]), self.user["S"], self.tbl_s,
                                 CTP(cfg["chkInt"]), self.seqprov)
        self.dst = DestHandler(LocalEntityCfg(self.did, icfg(cfg["indD"]), self.fh["D"]), self.user["D"], self.tbl_d,
                               CTP(cfg["chkInt"]))
        self.h = {"S": self.src, "D": self.dst}
        self.src_snapshot0 = self.snapshot("S")
        self.fs0 = self.snapshot("D")

    # ---- files ------------------------------------------------------------------------------
    def put_file(self, fs, path: Path, data: bytes):
        if self.mem:
            fs.files[path.as_posix()] = bytearray(data)
        else:
            path.parent.mkdir(parents=True, exist_ok=True)
            path.write_bytes(data)

    def mkdir(self, fs, path: Path):
        if self.mem:
            fs.dirs.add(path.as_posix())
        else:
            path.mkdir(parents=True, exist_ok=True)

    def rel(self, name) -> str:
        """Sandbox-relative name of a path string carried in a PDU / indication ('none' if absent)."""
        if name is None:
            return "none"
        s = str(name)
        for base, tag in ((self.sdir, "s"), (self.ddir, "d")):
            b = base.as_posix()
            if s == b:
                return tag
            if s.startswith(b + "/"):
                return tag + "/" + s[len(b) + 1:]
        return "abs:" + s

    def unrel(self, r: str):
        if r == "none":
            return None
        if r.startswith("abs:"):
            return r[4:]
        tag, _, rest = r.partition("/")
        base = self.sdir if tag == "s" else self.ddir
        return (base / rest).as_posix() if rest else base.as_posix()

    def snapshot(self, side: str) -> list[dict]:
        """The whole sandbox tree of one entity: sorted list of [p, dir, d]."""
        base = self.sdir if side == "S" else self.ddir
        tag = "s/" if side == "S" else "d/"
        out = []
        if self.mem:
            fs = self.sfs if side == "S" else self.dfs
            b = base.as_posix()
            for k in fs.dirs:
                if k != b and k.startswith(b + "/"):
                    out.append(dict(p=tag + k[len(b) + 1:], dir=True, d=[]))
            for k, v in fs.files.items():
                out.append(dict(p=tag + k[len(b) + 1:] if k.startswith(b + "/") else "abs:" + k, dir=False, d=list(v)))
        else:
            for p in base.rglob("*"):
                r = tag + p.relative_to(base).as_posix()
                if p.is_dir():
                    out.append(dict(p=r, dir=True, d=[]))
                else:
                    out.append(dict(p=r, dir=False, d=list(p.read_bytes())))
        out.sort(key=lambda x: x["p"])
        return out

    def host_untouched(self) -> bool:
        """For in-memory runs: nothing was created on the host under the pretended paths."""
        return not Path("/nonexistent_cfdpv").exists()

    def cleanup(self):
        if self.own_root:
            shutil.rmtree(self.root, ignore_errors=True)

    # ---- projection ---------------------------------------------------------------------------
    def hdr(self, p) -> dict:
        h = p.pdu_header
        return dict(dir="TR" if h.direction == Direction.TOWARDS_RECEIVER else "TS", mode=MODE_R[h.transmission_mode],
                    crc=h.crc_flag == CrcFlag.WITH_CRC, lf=h.file_flag == LargeFileFlag.LARGE,
                    sw=h.source_entity_id.byte_len, sv=h.source_entity_id.value, dw=h.dest_entity_id.byte_len,
                    dv=h.dest_entity_id.value, qw=h.transaction_seq_num.byte_len, qv=h.transaction_seq_num.value)

    def absp(self, p, observed: bool = True) -> dict:
        """Concrete PDU -> abstract record.  With observed=True also packs and re-parses it (plen, rt)."""
        n = type(p).__name__
        r = dict(h=self.hdr(p))
        if n == "FileDataPdu":
            r.update(t="FD", off=p.offset, data=list(p.file_data), segmeta=p.segment_metadata is not None)
        elif n == "MetadataPdu":
            opts = []
            for tlv in (p.options_as_tlv() or []):
                opts.append(dict(t=int(tlv.tlv_type), v=list(tlv.value)))
            sn = p.source_file_name
            r.update(t="MD", closure=bool(p.closure_requested), chkType=CHK_R.get(p.checksum_type, "OTHER"),
                     size=p.file_size, srcName=self.rel(sn), dstName=self.rel(p.dest_file_name),
                     srcBase="none" if sn is None else Path(sn).name, opts=opts)
        elif n == "EofPdu":
            fl = p.fault_location
            r.update(t="EOF", cond=cname(p.condition_code), size=p.file_size, chk=limbs(p.file_checksum),
                     floc=dict(set=fl is not None, v=list(fl.value) if fl is not None else []))
        elif n == "AckPdu":
            r.update(t="ACK", acked="EOF" if p.directive_code_of_acked_pdu == DirectiveType.EOF_PDU else "FIN",
                     cond=cname(p.condition_code_of_acked_pdu), tstat=TransactionStatus(p.transaction_status).name)
        elif n == "NakPdu":
            r.update(t="NAK", sos=p.start_of_scope, eos=p.end_of_scope,
                     reqs=[[a, b] for a, b in (p.segment_requests or [])])
        elif n == "FinishedPdu":
            fl = p.fault_location
            r.update(t="FIN", cond=cname(p.condition_code), deliv=p.delivery_code.name, fstat=p.file_status.name,
                     floc=dict(set=fl is not None, v=list(fl.value) if fl is not None else []))
        elif n == "KeepAlivePdu":
            r.update(t="KA", progress=p.progress)
        elif n == "PromptPdu":
            r.update(t="PROMPT", resp=int(p.response_required))
        else:
            raise TypeError(n)
        if observed:
            try:
                raw = bytes(p.pack())
                r["plen"] = len(raw)
                if n == "MetadataPdu":  # sandbox paths vary from run to run: length without the two names
                    r["plen"] -= len((p.source_file_name or "").encode()) + len((p.dest_file_name or "").encode())
                r["rt"] = self._roundtrip(p, raw, r)
            except Exception as e:  # noqa: BLE001
                r["plen"] = -1
                r["rt"] = "pack:" + type(e).__name__
        return r

    def _roundtrip(self, p, raw: bytes, a: dict) -> str:
        """'ok' iff the packed PDU parses back (PduFactory.from_raw) to the same abstract record.
        Known defects of the pinned spacepackets parser are normalised, not reported (DESIGN.md section 1)."""
        try:
            q = PduFactory.from_raw(raw)
        except Exception as e:  # noqa: BLE001
            return "parse:" + type(e).__name__
        if q is None:
            return "parse:None"
        if p.packet_len != len(raw):
            return "packet_len"
        try:
            b = self.absp(q, observed=False)
        except Exception as e:  # noqa: BLE001
            return "reproject:" + type(e).__name__
        a2 = {k: v for k, v in a.items() if k not in ("plen", "rt")}
        if a2.get("t") == "EOF":  # spacepackets 0.26.1: EofPdu.unpack does not shift the condition-code nibble
            a2 = dict(a2, cond="x")
            b = dict(b, cond="x")
        if a2.get("t") == "KA":
            a2 = dict(a2, progress=0)
            b = dict(b, progress=0)
        return "ok" if a2 == b else "fields"

    # ---- concretisation -----------------------------------------------------------------------
    def conf(self, h: dict) -> PduConfig:
        return PduConfig(
            source_entity_id=ByteFieldGenerator.from_int(h["sw"], h["sv"]),
            dest_entity_id=ByteFieldGenerator.from_int(h["dw"], h["dv"]),
            transaction_seq_num=ByteFieldGenerator.from_int(h["qw"], h["qv"]),
            trans_mode=MODE[h["mode"]], file_flag=LargeFileFlag.LARGE if h["lf"] else LargeFileFlag.NORMAL,
            crc_flag=CrcFlag.WITH_CRC if h["crc"] else CrcFlag.NO_CRC,
            direction=Direction.TOWARDS_RECEIVER if h["dir"] == "TR" else Direction.TOWARDS_SENDER)

    def conc(self, a: dict):
        c = self.conf(a["h"])
        t = a["t"]
        if t == "FD":
            p = FileDataPdu(c, FileDataParams(bytes(a["data"]), a["off"], None))
        elif t == "MD":
            opts = [MessageToUserTlv(bytes(o["v"])) if o["t"] == 2 else CfdpTlv(TlvType(o["t"]), bytes(o["v"])) for o in a["opts"]]
            p = MetadataPdu(c, MetadataParams(a["closure"], CHK[a["chkType"]], a["size"], self.unrel(a["srcName"]),
                                              self.unrel(a["dstName"])), opts or None)
        elif t == "EOF":
            fl = EntityIdTlv(bytes(a["floc"]["v"])) if a["floc"]["set"] else None
            p = EofPdu(c, unlimbs(a["chk"]), a["size"], fl, ConditionCode[a["cond"]])
        elif t == "ACK":
            p = AckPdu(c, DirectiveType.EOF_PDU if a["acked"] == "EOF" else DirectiveType.FINISHED_PDU,
                       ConditionCode[a["cond"]], TransactionStatus[a["tstat"]])
        elif t == "NAK":
            p = NakPdu(c, a["sos"], a["eos"], [tuple(r) for r in a["reqs"]])
        elif t == "FIN":
            fl = EntityIdTlv(bytes(a["floc"]["v"])) if a["floc"]["set"] else None
            p = FinishedPdu(c, FinishedParams(ConditionCode[a["cond"]], DeliveryCode[a["deliv"]], FileStatus[a["fstat"]],
                                              fault_location=fl))
        elif t == "KA":
            p = KeepAlivePdu(c, a["progress"])
        elif t == "PROMPT":
            p = PromptPdu(c, ResponseRequired(a["resp"]))
        else:
            raise TypeError(t)
        # constructors force the direction proper to the type; an adversarial input may carry the other one
        want = Direction.TOWARDS_RECEIVER if a["h"]["dir"] == "TR" else Direction.TOWARDS_SENDER
        if p.pdu_header.direction != want:
            p.pdu_header.pdu_conf.direction = want
        return p

    # ---- calls --------------------------------------------------------------------------------
    def pub(self, side: str) -> dict:
        h = self.h[side]
        t = h.transaction_id
        d = dict(state=h.state.name, step=h.step.name, progress=h.progress,
                 fileSize=-1 if h.file_size is None else h.file_size, nready=h.num_packets_ready,
                 tidSet=t is not None, tseq=-1 if t is None else t.seq_num.value)
        if side == "S":
            # qlen: the PDUs really queued (nready is the handler's own counter, which the API calls consult)
            q = getattr(h, "_pdus_to_be_sent", None)       # (a private name: fall back to the counter if it is ever renamed)
            d.update(ackCnt=h.positive_ack_counter, qlen=len(q) if q is not None else h.num_packets_ready)
        else:
            d.update(ackCnt=h.positive_ack_counter, nakCnt=h.nak_activity_counter, chkCnt=h.current_check_counter,
                     deferred=bool(h.deferred_lost_segment_procedure_active))
        return d

    def env(self, call: str, **kw) -> None:
        """An environment event (link fault, clock, entity-layer answer): skipped by the transducers, visible to monitors."""
        self.ev.append(dict(side="E", call=call, now=Clock.now, **kw))

    def call(self, side: str, kind: str, arg=None, take: int | None = None, wrej: bool = False) -> dict:
        """One public API call + retrieval of `take` queued PDUs (None = all).  Returns the event; the
        retrieved concrete PDUs are in event['_pdus'] (not part of the JSON projection)."""
        h = self.h[side]
        pre = self.pub(side)
        n_ind, n_flt = len(self.ind[side]), len(self.flt[side])
        fs = self.dfs if side == "D" else self.sfs
        fs.reject_write = wrej
        w0 = fs.writes
        exc, excr, excw, ret = "none", "none", "none", "none"
        argabs = dict(t="none")
        if self.mem:
            Audit.seen = []
            Audit.active = True
        try:
            if kind == "put":
                argabs = self.absreq(arg)
                ret = "true" if h.put_request(arg) else "false"
            elif kind == "fsm":
                if arg is not None:
                    argabs = self.absp(arg, observed=False)
                    arg = copy.deepcopy(arg)
                h.state_machine(arg)
            elif kind == "cancel":
                t = h.transaction_id
                right = bool(arg)
                if right and t is not None:
                    tid = t
                else:
                    tid = TransactionId(self.sid, ByteFieldGenerator.from_int(self.cfg["seqW"], 0x7F))
                    if t is not None and tid == t:
                        tid = TransactionId(self.sid, ByteFieldGenerator.from_int(self.cfg["seqW"], 0x7E))
                argabs = dict(t="cancel", right=right and t is not None)
                ret = "true" if h.cancel_request(tid) else "false"
            elif kind == "reset":
                argabs = dict(t="reset")
                h.reset()
            else:
                raise ValueError(kind)
        except Exception as e:  # noqa: BLE001 - the class is what the monitors judge
            exc = type(e).__name__
            if hasattr(e, "reason") and hasattr(e.reason, "name"):
                excr = e.reason.name
            tb = traceback.extract_tb(e.__traceback__)
            fr = [f for f in tb if "/cfdppy/" in f.filename]
            excw = (fr[-1].name if fr else tb[-1].name)
        finally:
            fs.reject_write = False
            Audit.active = False
        pdus = []
        while take is None or len(pdus) < take:
            ph = h.get_next_packet()
            if ph is None:
                break
            pdus.append(ph.pdu)
        ev = dict(side=side, call=kind, arg=argabs, now=Clock.now, take=-1 if take is None else take, wrej=wrej,
                  nwrites=fs.writes - w0, pre=pre, post=self.pub(side), ret=ret, exc=exc, excr=excr, excw=excw,
                  out=[self.absp(p) for p in pdus], ind=self.ind[side][n_ind:], flt=self.flt[side][n_flt:],
                  fs=self.snapshot("D") if (side == "D" or self.pair) else [], srcIntact=self.snapshot("S") == self.src_snapshot0,
                  hostopen=list(Audit.seen) if self.mem else [])
        self.ev.append(ev)
        ev2 = dict(ev)
        ev2["_pdus"] = pdus
        return ev2

    def absreq(self, r: PutRequest) -> dict:
        """Projection of a put request, including what the filestore and the MIB answer for it."""
        sf = r.source_file
        exists = sf is not None and bool(self.sfs.file_exists(sf))
        data = []
        if exists and not self.sfs.is_directory(sf):
            data = list(self.sfs.read_data(sf, 0, None) if self.mem else Path(sf).read_bytes())
        return dict(t="put", mdOnly=r.metadata_only, mode="none" if r.trans_mode is None else MODE_R[r.trans_mode],
                    closure="none" if r.closure_requested is None else ("true" if r.closure_requested else "false"),
                    exists=exists, data=data, srcName=self.rel(None if sf is None else sf.as_posix()),
                    srcBase="none" if sf is None else sf.name,
                    dstName=self.rel(None if r.dest_file is None else r.dest_file.as_posix()),
                    dIdW=r.destination_id.byte_len, dId=r.destination_id.value,
                    known=self.tbl_s.get_cfg(r.destination_id) is not None,
                    msgs=[list(m.value) for m in (r.msgs_to_user or [])], xopts=xopts_abs(r))

    def put_request(self, **over) -> PutRequest:
        c = self.cfg
        if c["mdOnly"]:
            sf, df = None, None
        else:
            sf, df = self.srcf, self.dstf
        pm = None if c["putMode"] == "none" else MODE[c["putMode"]]
        pc = None if c["putClosure"] == "none" else (c["putClosure"] == "true")
        msgs = [MessageToUserTlv(bytes(m)) for m in c["msgs"]] or None
        kw = dict(destination_id=self.did, source_file=sf, dest_file=df, trans_mode=pm, closure_requested=pc,
                  msgs_to_user=msgs, **xopts_kw(c.get("xopts")))
        kw.update(over)
        return PutRequest(**kw)

    def trace(self, tid: int, kind: str, sched=None) -> dict:
        return dict(tid=tid, kind=kind, cfg=self.cfg, sched=sched or [], fs0=self.fs0, props=[], ev=self.ev)

"""Batch trace validation by TLC (spec/CfdpTrace.tla): sharding over cores, verdict parsing."""
from __future__ import annotations

import json
import os
from concurrent.futures import ThreadPoolExecutor
from pathlib import Path

from common import MachineryError, parse_tla, run_tlc, tla_chunks

PRED_S = ["out", "ind", "flt", "exc", "excr", "ret", "post"]
PRED_D = PRED_S + ["fs"]


def _strip(t: dict) -> dict:
    """JSON projection of a trace (drops concrete PDU objects)."""
    ev = [{k: v for k, v in e.items() if not k.startswith("_")} for e in t["ev"]]
    return dict(t, ev=ev)


def validate(traces: list[dict], wd: Path, shards: int = 16, module: str = "CfdpTrace", timeout: int = 3600) -> dict[int, dict]:
    """Returns tid -> verdict dict(status, at, clauses, pred, viol)."""
    if not traces:
        return {}
    shards = max(1, min(shards, len(traces) // 40 + 1))
    files = []
    for i in range(shards):
        part = [_strip(t) for t in traces[i::shards]]
        f = wd / f"batch_{module}_{i}.json"
        f.write_text(json.dumps(part))
        files.append(f)

    def one(f: Path):
        r = run_tlc(module, module + ".cfg", wd=wd, workers=1, env={"TRACE_FILE": str(f)}, timeout=timeout, heap="2g", stack="16m")
        return r

    with ThreadPoolExecutor(max_workers=shards) as ex:
        results = list(ex.map(one, files))
    verdicts: dict[int, dict] = {}
    for r in results:
        chunks = tla_chunks(r.out, "VERDICT")
        for ch in chunks:
            v = parse_tla(ch)
            verdicts[v[1]] = dict(status=v[2], at=v[3], clauses=sorted(v[4]), pred=v[5], viol=v[6])
        if r.rc != 0 and not chunks:
            raise MachineryError("trace validation failed: " + r.out[-3000:])
    missing = [t["tid"] for t in traces if t["tid"] not in verdicts]
    if missing:
        tails = "\n----\n".join(r.out[-2500:] for r in results if "rror" in r.out)
        raise MachineryError(f"no verdict for {len(missing)} of {len(traces)} traces (first tid {missing[0]}):\n{tails}")
    if not os.environ.get("VERIF_KEEP_BATCHES"):
        for f in files:
            f.unlink(missing_ok=True)
    return verdicts


def explain_drift(trace: dict, v: dict) -> str:
    """Human-readable comparison of observed and predicted values of the drifting event."""
    e = trace["ev"][v["at"] - 1]
    names = PRED_D if e["side"] == "D" else PRED_S
    lines = [f"trace {trace['tid']} event {v['at']}: {e['side']} {e['call']} arg={json.dumps(e['arg'])[:300]} now={e['now']} pre={e['pre']}"]
    for n, pv in zip(names, v["pred"]):
        if n in v["clauses"]:
            lines.append(f"  {n}: observed  {json.dumps(e[n])[:1500]}")
            lines.append(f"  {n}: predicted {json.dumps(pv)[:1500]}")
    return "\n".join(lines)

"""Developer tool (not part of any verdict): which lines of cfdppy do the executions of the checks reach?
Enabled by CFDP_LINECOV=<dir>: every process that imports the harness records the executed lines of files under cfdppy/ with
sys.monitoring (each line once, then disabled) and writes <dir>/<pid>.json at exit.  `python linecov.py <dir>` merges the files
and lists, per source file, the executable lines never reached (what neither the specification's behaviours nor the drivers
exercise on the real code)."""
import atexit
import json
import os
import sys

_dir = os.environ.get("CFDP_LINECOV")
_hit: dict[str, set] = {}


def _install():
    mon = sys.monitoring
    tool = mon.COVERAGE_ID
    try:
        mon.use_tool_id(tool, "cfdp-linecov")
    except ValueError:
        return

    state = {"new": 0}

    def dump():
        os.makedirs(_dir, exist_ok=True)
        tmp = os.path.join(_dir, f"{os.getpid()}.tmp")
        with open(tmp, "w") as f:
            json.dump({k: sorted(v) for k, v in _hit.items()}, f)
        os.replace(tmp, os.path.join(_dir, f"{os.getpid()}.json"))

    def on_line(code, line):
        fn = code.co_filename
        if "/cfdppy/" in fn:
            _hit.setdefault(fn, set()).add(line)
            state["new"] += 1
            if state["new"] % 25 == 0:      # pool workers are killed without finalizers: write as we go (each line fires once)
                dump()
        return mon.DISABLE

    mon.register_callback(tool, mon.events.LINE, on_line)
    mon.set_events(tool, mon.events.LINE)

    atexit.register(dump)
    # worker processes of a pool end with os._exit: also dump from a multiprocessing finalizer
    try:
        from multiprocessing import util
        util.Finalize(None, dump, exitpriority=0)
    except Exception:
        pass


if _dir:
    _install()


def report(d):
    import ast
    import glob
    hit: dict[str, set] = {}
    for f in glob.glob(os.path.join(d, "*.json")):
        for k, v in json.load(open(f)).items():
            hit.setdefault(k, set()).update(v)
    for fn in sorted(hit):
        src = open(fn).read()
        tree = ast.parse(src)
        exe = set()
        for node in ast.walk(tree):
            if isinstance(node, ast.stmt) and not isinstance(node, (ast.FunctionDef, ast.ClassDef, ast.Import, ast.ImportFrom)):
                if isinstance(node, ast.Expr) and isinstance(node.value, ast.Constant) and isinstance(node.value.value, str):
                    continue   # docstring
                exe.add(node.lineno)
        miss = sorted(exe - hit[fn])
        print(f"== {fn}: {len(exe & hit[fn])}/{len(exe)} statements reached; not reached: {miss}")


if __name__ == "__main__":
    report(sys.argv[1])

"""Demonstrates the binding of the specification to the code (never part of a property's verdict):
a recorded execution of the real handlers is accepted by the validator; the same execution with one logged field corrupted, or one
event removed, is rejected, and the validator names the clause.  usage: selftest.py"""
import copy
import os
import sys
from pathlib import Path

HERE = Path(__file__).resolve().parent
sys.path.insert(0, str(HERE))
sys.path.insert(0, os.environ.get("CFDP_REPO", "/repo") + "/src")
import pair  # noqa: E402
import tracecheck  # noqa: E402
import world  # noqa: E402
from common import workdir  # noqa: E402


def main() -> int:
    wd = workdir("selftest")
    good = pair.run_hist(world.mkcfg(), [["S", 0], ["S", 0], ["drop", 0], ["S", 0], ["D", 1]], 1, ["C01", "C03", "C10"])
    cases = [("untouched", good, None)]

    def tamper(name, fn, clause):
        t = copy.deepcopy(good)
        fn(t)
        t["tid"] = len(cases) + 1
        cases.append((name, t, clause))

    calls = [i for i, e in enumerate(good["ev"]) if e["side"] != "E"]
    fd = next(i for i in calls if any(o["t"] == "FD" for o in good["ev"][i]["out"]))
    tamper("one byte of an emitted File Data PDU changed", lambda t: t["ev"][fd]["out"][0]["data"].__setitem__(0, 99), "out")
    ind = next(i for i in calls if good["ev"][i]["ind"])
    tamper("one indication removed", lambda t: t["ev"][ind]["ind"].pop(), "ind")
    tamper("public state after a call changed", lambda t: t["ev"][calls[3]]["post"].__setitem__("progress", 7), "post")
    dcall = next(i for i in calls if good["ev"][i]["side"] == "D" and good["ev"][i]["fs"])
    tamper("destination sandbox snapshot changed", lambda t: t["ev"][dcall]["fs"].append(dict(p="d/extra", dir=False, d=[1])), "fs")
    tamper("one call event removed", lambda t: t["ev"].pop(calls[2]), None)
    v = tracecheck.validate([c[1] for c in cases], wd)
    ok = True
    for name, t, clause in cases:
        r = v[t["tid"]]
        if name == "untouched":
            good_ok = r["status"] == "ok"
            print(f"{name}: {r['status']}")
            ok &= good_ok
        else:
            hit = r["status"] == "drift" and (clause is None or clause in r["clauses"])
            print(f"{name}: {r['status']} at event {r['at']} clauses {r['clauses']} -> {'rejected as expected' if hit else 'NOT REJECTED'}")
            ok &= hit
    print("selftest", "ok" if ok else "FAILED")
    return 0 if ok else 1


if __name__ == "__main__":
    sys.exit(main())

"""pytest plugin: records every SourceHandler / DestHandler that the REPOSITORY'S OWN tests construct, in the trace format of
harness/world.py, so that the executions of those tests (hand-fed PDUs, real-time sleeps, pyfakefs) are validated clause by
clause against the TLA+ transducers and judged by the monitors - tests whose assertions are weak still exercise paths whose
every step the validator checks.

usage (harness/repotests.py does this):
  cd <repo> && CFDP_TRACE_OUT=<dir> PYTHONPATH=/verif/harness python -m pytest -p pytest_cfdptrace -q -p no:cacheprovider tests

Nothing in /repo is touched: the handlers' public methods, the user / fault-handler callbacks and the clock are wrapped from
outside.  During each public call the clock (spacepackets.countdown.time_ms) is frozen at its value at call entry, so that
the timers of the real code and of the specification read the same time.
"""
from __future__ import annotations

import json
import os
import traceback
from pathlib import Path

import spacepackets.countdown as _cd

_REAL_TIME_MS = _cd.time_ms          # world.py replaces the clock on import: keep the real one
import world as _world  # noqa: E402

_cd.time_ms = _REAL_TIME_MS
from spacepackets.cfdp import ConditionCode, FaultHandlerCode  # noqa: E402
from spacepackets.cfdp.pdu import AbstractFileDirectiveBase  # noqa: E402,F401

from cfdppy.handler.dest import DestHandler  # noqa: E402
from cfdppy.handler.source import SourceHandler  # noqa: E402
from cfdppy.mib import EntityType  # noqa: E402

OUT = Path(os.environ.get("CFDP_TRACE_OUT", "/tmp/cfdp_repotests"))
RECORDERS: list = []
FROZEN = {"on": False, "t": 0}
FH_NAME = {FaultHandlerCode.NOTICE_OF_CANCELLATION: "cancel", FaultHandlerCode.IGNORE_ERROR: "ignore",
           FaultHandlerCode.ABANDON_TRANSACTION: "abandon", FaultHandlerCode.NOTICE_OF_SUSPENSION: "suspend"}


def _time_ms():
    return FROZEN["t"] if FROZEN["on"] else _REAL_TIME_MS()


_cd.time_ms = _time_ms


class PWorld(_world.World):
    """The projection of harness/world.py without a sandbox of its own: absolute paths are kept ('p' + path)."""

    def __init__(self, side, handler):   # noqa: super().__init__ deliberately not called
        self.side = side
        self.h = {side: handler}
        self.mem = False
        self.pair = False
        self.cfg = {}

    def rel(self, name):
        return "none" if name is None else "p" + str(name)


class Recorder:
    def __init__(self, side: str, handler, local_cfg, user, table, ctp, seqprov=None):
        self.side, self.h, self.local, self.user, self.table, self.ctp, self.seqprov = side, handler, local_cfg, user, table, ctp, seqprov
        self.w = PWorld(side, handler)
        self.t0 = _REAL_TIME_MS()
        self.ev: list[dict] = []
        self.cur: dict | None = None
        self.ind: list[dict] = []
        self.flt: list[dict] = []
        self.depth = 0
        self.root: Path | None = None
        self.fs0: list = []
        self.seq0 = None
        self._wrap_callbacks()
        self._wrap_api()
        RECORDERS.append(self)

    # ---- callbacks -------------------------------------------------------------------------------
    def _wrap_callbacks(self):
        """The handler talks to proxies of the test's user and fault-handler objects: every indication / fault callback is
        logged and then forwarded to the test's own object (looked up at call time, so mocks installed later still work and the
        test's assertions on its own objects are unaffected)."""
        rec = _world.RecUser.__new__(_world.RecUser)
        rec.w = type("W", (), {"ind": {self.side: self.ind}, "rel": self.w.rel})()
        rec.side = self.side
        outer = self
        names = ("transaction_indication", "eof_sent_indication", "transaction_finished_indication", "metadata_recv_indication",
                 "file_segment_recv_indication", "eof_recv_indication")

        class UserProxy:
            def __init__(self, real):
                object.__setattr__(self, "_real", real)

            def __getattr__(self, name):
                real = object.__getattribute__(self, "_real")
                if name in names:
                    def call(*a, **kw):
                        try:
                            getattr(_world.RecUser, name)(rec, *a, **kw)
                        except Exception:  # noqa: BLE001
                            traceback.print_exc()
                        return getattr(real, name)(*a, **kw)
                    return call
                return getattr(real, name)

            def __setattr__(self, name, value):
                setattr(object.__getattribute__(self, "_real"), name, value)

        class FhProxy:
            def __init__(self, real):
                object.__setattr__(self, "_real", real)

            def _log(self, kind, t, c, p):
                tid = dict(set=False, src=0, seq=0) if t is None else dict(set=True, src=t.source_id.value, seq=t.seq_num.value)
                outer.flt.append(dict(k=kind, tid=tid, cond=_world.cname(c), prog=p))

            def report_fault(self, transaction_id, cond, progress):
                real = object.__getattribute__(self, "_real")
                self._log(FH_NAME.get(real.get_fault_handler(cond), "none"), transaction_id, cond, progress)
                return real.report_fault(transaction_id, cond, progress)

            def abandoned_cb(self, t, c, p):
                self._log("abandon", t, c, p)
                return object.__getattribute__(self, "_real").abandoned_cb(t, c, p)

            def __getattr__(self, name):
                return getattr(object.__getattribute__(self, "_real"), name)

        self.h.user = UserProxy(self.user)
        self.h.cfg.default_fault_handlers = FhProxy(self.local.default_fault_handlers)

    # ---- public API ------------------------------------------------------------------------------
    def _now(self):
        return 1000 + (FROZEN["t"] if FROZEN["on"] else _REAL_TIME_MS()) - self.t0

    def _finalize(self):
        if self.cur is not None:
            e = self.cur
            e["take"] = len(e["out"])
            self.ev.append(e)
            self.cur = None

    def _snapshot(self):
        if self.root is None:
            return None       # filled with fs0 when the trace is written
        out = []
        for p in self.root.rglob("*"):
            r = "p" + p.as_posix()
            out.append(dict(p=r, dir=True, d=[]) if p.is_dir() else dict(p=r, dir=False, d=list(p.read_bytes())))
        out.sort(key=lambda x: x["p"])
        return out

    def _call(self, kind, fn, arg, argabs):
        if self.depth > 0:               # a call made by the handler itself (state_machine re-entered): not an API call
            return fn()
        self._finalize()
        if self.side == "D" and self.root is None and argabs.get("t") == "MD" and argabs.get("dstName", "none") != "none":
            p = Path(argabs["dstName"][1:])
            self.root = p if p.is_dir() else p.parent
            self.fs0 = self._snapshot()
        self.depth += 1
        FROZEN["t"], FROZEN["on"] = _REAL_TIME_MS(), True
        n_ind, n_flt = len(self.ind), len(self.flt)
        e = dict(side=self.side, call=kind, arg=argabs, now=self._now(), take=0, wrej=False, nwrites=0, pre=self.w.pub(self.side), ret="none",
                 exc="none", excr="none", excw="none", out=[], srcIntact=True, hostopen=[])
        try:
            r = fn()
            if kind in ("put", "cancel"):
                e["ret"] = "true" if r else "false"
            return r
        except Exception as x:  # noqa: BLE001
            e["exc"] = type(x).__name__
            if hasattr(x, "reason") and hasattr(x.reason, "name"):
                e["excr"] = x.reason.name
            tb = traceback.extract_tb(x.__traceback__)
            fr = [f for f in tb if "/cfdppy/" in f.filename]
            e["excw"] = fr[-1].name if fr else tb[-1].name
            raise
        finally:
            FROZEN["on"] = False
            self.depth -= 1
            e["ind"], e["flt"] = self.ind[n_ind:], self.flt[n_flt:]
            # state and sandbox right after the call (the fake file system of the test is gone at teardown)
            e["post"] = self.w.pub(self.side)
            e["fs"] = self._snapshot() if self.side == "D" else []
            self.cur = e

    def _wrap_api(self):
        h, side = self.h, self.side
        o_fsm, o_get, o_cancel, o_reset = h.state_machine, h.get_next_packet, h.cancel_request, h.reset

        def fsm(packet=None):
            a = dict(t="none") if packet is None else self.w.absp(packet, observed=False)
            return self._call("fsm", lambda: o_fsm(packet), packet, a)

        def get_next_packet():
            ph = o_get()
            if ph is not None and self.depth == 0 and self.cur is not None:
                self.cur["out"].append(self.w.absp(ph.pdu))
                self.cur["post"] = self.w.pub(self.side)
            return ph

        def cancel(tid):
            t = h.transaction_id
            return self._call("cancel", lambda: o_cancel(tid), tid, dict(t="cancel", right=t is not None and tid == t))

        def reset():
            return self._call("reset", o_reset, None, dict(t="reset"))

        h.state_machine, h.get_next_packet, h.cancel_request, h.reset = fsm, get_next_packet, cancel, reset
        if side == "S":
            o_put = h.put_request

            def put(request):
                sf = request.source_file
                exists = sf is not None and Path(sf).exists()
                data = list(Path(sf).read_bytes()) if exists and Path(sf).is_file() else []
                rc = self.table.get_cfg(request.destination_id)
                a = dict(t="put", mdOnly=request.metadata_only, mode="none" if request.trans_mode is None else _world.MODE_R[request.trans_mode],
                         closure="none" if request.closure_requested is None else ("true" if request.closure_requested else "false"),
                         exists=bool(exists), data=data, srcName=self.w.rel(None if sf is None else Path(sf).as_posix()),
                         srcBase="none" if sf is None else Path(sf).name,
                         dstName=self.w.rel(None if request.dest_file is None else Path(request.dest_file).as_posix()),
                         dIdW=request.destination_id.byte_len, dId=request.destination_id.value, known=rc is not None,
                         msgs=[list(m.value) for m in (request.msgs_to_user or [])], xopts=_world.xopts_abs(request))
                if self.seqprov is not None and self.seq0 is None:
                    rv = getattr(self.seqprov.get_and_increment, "return_value", None)    # some tests mock the provider
                    self.seq0 = rv if isinstance(rv, int) else getattr(self.seqprov, "count", 0)
                return self._call("put", lambda: o_put(request), request, a)
            h.put_request = put

    # ---- the trace -------------------------------------------------------------------------------
    def cfg(self) -> dict:
        rcs = list(self.table._remote_entity_dict.values())
        rc = rcs[0] if rcs else None
        lid = self.local.local_entity_id
        ic = self.local.indication_cfg
        ind = dict(eofSent=bool(ic.eof_sent_indication_required), eofRecv=bool(ic.eof_recv_indication_required),
                   segRecv=bool(ic.file_segment_recvd_indication_required), finished=bool(ic.transaction_finished_indication_required))
        fh = {}
        for c in _world.FH_CONDS:
            try:
                fh[c] = FH_NAME.get(self.local.default_fault_handlers.get_fault_handler(ConditionCode[c]), "cancel")
            except Exception:  # noqa: BLE001
                fh[c] = "cancel"
        c = _world.mkcfg()
        if rc is not None:
            try:
                chk = self.ctp.provide_check_timer(lid, rc.entity_id, EntityType.SENDING if self.side == "S" else EntityType.RECEIVING).timeout_ms
            except Exception:  # noqa: BLE001
                chk = 1000
            c.update(mode=_world.MODE_R[rc.default_transmission_mode], closure=bool(rc.closure_requested), segLen=rc.max_file_segment_len or 0,
                     maxPkt=rc.max_packet_len, crc=bool(rc.crc_on_transmission), chk=_world.CHK_R.get(rc.crc_type, "NULL"),
                     ackInt=int(round(rc.positive_ack_timer_interval_seconds * 1000)), ackIntD=0, ackLim=rc.positive_ack_timer_expiration_limit,
                     nakInt=int(round(rc.nak_timer_interval_seconds * 1000)), nakLim=rc.nak_timer_expiration_limit, chkInt=chk,
                     chkLim=rc.check_limit, immNak=bool(rc.immediate_nak_mode), disp=bool(rc.disposition_on_cancellation))
        rid = rc.entity_id if rc is not None else lid
        if self.side == "S":
            c.update(sIdW=lid.byte_len, sId=lid.value, dIdW=rid.byte_len, dId=rid.value, indS=ind, fhS=fh,
                     seqW=(self.seqprov.max_bit_width // 8) if self.seqprov is not None else 2, seq0=self.seq0 or 0)
        else:
            c.update(dIdW=lid.byte_len, dId=lid.value, sIdW=rid.byte_len, sId=rid.value, indD=ind, fhD=fh)
        c.update(file=[], srcName="x", dstName="x")
        return c

    def trace(self, tid: int, test: str) -> dict | None:
        self._finalize()
        if not self.ev:
            return None
        fs0 = self.fs0 or []
        for e in self.ev:
            if e["fs"] is None:
                e["fs"] = fs0
        return dict(tid=tid, kind="src" if self.side == "S" else "dst", test=test, cfg=self.cfg(), sched=[], fs0=fs0, props=["C10"], ev=self.ev)


_orig_src_init = SourceHandler.__init__
_orig_dst_init = DestHandler.__init__


def _src_init(self, cfg, user, remote_cfg_table, check_timer_provider, seq_num_provider, *a, **kw):
    _orig_src_init(self, cfg, user, remote_cfg_table, check_timer_provider, seq_num_provider, *a, **kw)
    try:
        Recorder("S", self, cfg, user, remote_cfg_table, check_timer_provider, seq_num_provider)
    except Exception:  # noqa: BLE001 - never disturb the test
        traceback.print_exc()


def _dst_init(self, cfg, user, remote_cfg_table, check_timer_provider, *a, **kw):
    _orig_dst_init(self, cfg, user, remote_cfg_table, check_timer_provider, *a, **kw)
    try:
        Recorder("D", self, cfg, user, remote_cfg_table, check_timer_provider)
    except Exception:  # noqa: BLE001
        traceback.print_exc()


def pytest_configure(config):
    SourceHandler.__init__ = _src_init
    DestHandler.__init__ = _dst_init
    OUT.mkdir(parents=True, exist_ok=True)


_COUNT = {"n": 0}


def pytest_runtest_teardown(item, nextitem):
    recs = list(RECORDERS)
    RECORDERS.clear()
    for r in recs:
        try:
            _COUNT["n"] += 1
            t = r.trace(_COUNT["n"], item.nodeid)
            if t is not None:
                (OUT / f"t{_COUNT['n']:04d}.json").write_text(json.dumps(t))
        except Exception:  # noqa: BLE001
            traceback.print_exc()

"""Model-checking instances of the closed system spec/Cfdp.tla and schedule generation.

An instance = a configuration family (TLA+ expression over spec/MC_Cfdp.tla) + the environment constants.
TLC either checks invariants / temporal properties over all behaviours of the instance, or (record=True) prints every
complete behaviour as a schedule, which harness/pair.py executes on the real handlers."""
from __future__ import annotations

from pathlib import Path

from common import SPEC, MachineryError, TlcResult, parse_tla, run_tlc, tla_chunks


def tla_set(xs) -> str:
    return "{" + ", ".join('"%s"' % x if isinstance(x, str) else str(x) for x in xs) + "}"


def run_model(wd: Path, name: str, cfgs: str, *, K: int = 0, faults=(), cancels=(), cuts=(), pacing: str = "canon",
              ticks=(1000,), invariants=(), properties=(), fair: bool = False, record: bool = False, maxhist: int = 0,
              constraint: str | None = None, defs: str = "", workers: int | str = 16, simulate: dict | None = None,
              timeout: int = 3600, coverage: bool = False, seed: int = 0, heap: str = "8g") -> TlcResult:
    mod = f"MCi_{name}"
    (wd / f"{mod}.tla").write_text(
        f"---- MODULE {mod} ----\nEXTENDS MC_Cfdp\nTheCfgs == {cfgs}\n{defs}\n"
        + ("ASSUME PrintCfgs(TheCfgs)\n" if record else "") + "====\n")
    inv = list(invariants) + (["EmitSched"] if record else [])
    cfg = ["SPECIFICATION " + ("FairSpec" if fair else "Spec"), "CONSTANTS", "  Cfgs <- TheCfgs", f"  K = {K}",
           f"  Faults = {tla_set(faults)}", f"  Cancels = {tla_set(cancels)}", f"  Cuts = {tla_set(cuts)}",
           f'  Pacing = "{pacing}"', f"  Ticks = {tla_set(ticks)}", f"  Record = {'TRUE' if record else 'FALSE'}",
           f"  MaxHist = {maxhist}"]
    cfg += [f"INVARIANT {i}" for i in inv] + [f"PROPERTY {p}" for p in properties]
    if constraint:
        cfg.append(f"CONSTRAINT {constraint}")
    cfg.append("CHECK_DEADLOCK FALSE")
    (wd / f"{mod}.cfg").write_text("\n".join(cfg) + "\n")
    args = []
    if coverage:
        args += ["-coverage", "1"]
    if simulate:
        args += ["-simulate", f"num={simulate['num']}", "-depth", str(simulate["depth"]), "-seed", str(seed)]
    r = run_tlc(mod, f"{mod}.cfg", wd=wd, workers=workers, args=args, timeout=timeout, specdir=wd, lib=SPEC, heap=heap)
    if r.error and not r.violated and "TLC-TIMEOUT" not in r.out:
        raise MachineryError(f"TLC failed on {mod}: " + r.out[-2500:])
    return r


def schedules(r: TlcResult):
    """-> (cfgs: id -> world cfg dict, list of (cfg id, 'done'|'open', [[a, x], ...]))"""
    cfgs = {}
    for ch in tla_chunks(r.out, "CFGS"):
        for c in parse_tla(ch)[1]:
            cfgs[c["id"]] = c
    out = []
    seen = set()
    for ch in tla_chunks(r.out, "SCHED"):
        _, cid, status, hist = parse_tla(ch)
        h = [[e["a"], e["x"]] for e in hist]
        key = (cid, tuple(map(tuple, h)))
        if key in seen:
            continue
        seen.add(key)
        out.append((cid, status, h))
    if not cfgs:
        raise MachineryError("no CFGS line in TLC output: " + r.out[-1500:])
    return cfgs, out


# ---- configurations chosen by the harness, handed to TLC as TLA+ text ----
def tla_val(v) -> str:
    if isinstance(v, bool):
        return "TRUE" if v else "FALSE"
    if isinstance(v, int):
        return str(v)
    if isinstance(v, str):
        return '"%s"' % v
    if isinstance(v, (list, tuple)):
        return "<<" + ", ".join(tla_val(x) for x in v) + ">>"
    if isinstance(v, dict):
        return "[" + ", ".join(f"{k} |-> {tla_val(x)}" for k, x in v.items()) + "]"
    raise TypeError(v)


def cfg_tla(over: dict) -> str:
    if not over:
        return "DefaultCfg"
    return "[DefaultCfg EXCEPT " + ", ".join(f"!.{k} = {tla_val(v)}" for k, v in over.items()) + "]"


def cfgs_tla(overs: list[dict]) -> str:
    return "Numbered({" + ",\n  ".join(cfg_tla(o) for o in overs) + "})"

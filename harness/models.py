"""Model-checking instances of the closed system spec/Cfdp.tla and schedule generation.

An instance = a configuration family (TLA+ expression over spec/MC_Cfdp.tla) + the environment constants.
TLC either checks invariants / temporal properties over all behaviours of the instance, or (record=True) prints every
complete behaviour as a schedule, which harness/pair.py executes on the real handlers."""
from __future__ import annotations

from pathlib import Path

from common import SPEC, MachineryError, TlcResult, parse_tla, run_tlc, tla_chunks


def json_lines(r, tag: str, limit: int | None = None, rng=None, dedupe: bool = False) -> list:
    """Values printed by PrintT(tag \\o ToJson(v)): one quoted TLA+ string per line (optionally a seeded sample of them)."""
    import json

    from common import tagged_lines
    if isinstance(r, str):      # small outputs kept in memory (data-type models: FST, VEC, ...)
        lines = [line for line in r.splitlines() if line.startswith('"' + tag)]
        total = len(lines)
        if limit is not None and rng is not None and total > limit:
            lines = rng.sample(lines, limit)
    else:
        lines, total = tagged_lines(r, tag, limit, rng, dedupe)
    json_lines.last_total = total
    def body(line):
        b = json.loads(line)[len(tag):]
        return b if b.startswith("{") else b.partition("|")[2]       # [signature "|"] json
    return [json.loads(body(line)) for line in lines]


def tla_set(xs) -> str:
    return "{" + ", ".join('"%s"' % x if isinstance(x, str) else str(x) for x in xs) + "}"


def run_model(wd: Path, name: str, cfgs: str, *, K: int = 0, faults=(), cancels=(), cuts=(), pacing: str = "canon",
              ticks=(1000,), invariants=(), properties=(), fair: bool = False, record: bool = False, maxhist: int = 0,
              constraint: str | None = None, defs: str = "", workers: int | str = 16, simulate: dict | None = None,
              timeout: int = 3600, coverage: bool = False, seed: int = 0, heap: str = "6g") -> TlcResult:
    mod = f"MCi_{name}"
    (wd / f"{mod}.tla").write_text(
        f"---- MODULE {mod} ----\nEXTENDS MC_Cfdp\nTheCfgs == {cfgs}\n{defs}\n"
        + ("ASSUME PrintCfgs(TheCfgs)\n" if record else "") + "====\n")
    inv = list(invariants) + (["EmitSched"] if record else [])
    cfg = ["SPECIFICATION " + ("FairSpec" if fair else "Spec"), "CONSTANTS", "  Cfgs <- TheCfgs", f"  K = {K}",
           f"  Faults = {tla_set(faults)}", f"  Cancels = {tla_set(cancels)}", f"  Cuts = {tla_set(cuts)}",
           f'  Pacing = "{pacing}"', f"  Ticks = {tla_set(ticks)}", f"  Record = {'TRUE' if record else 'FALSE'}",
           f"  MaxHist = {maxhist}"]
    cfg += [f"INVARIANT {i}" for i in inv] + [f"PROPERTY {p}" for p in properties]
    if constraint:
        cfg.append(f"CONSTRAINT {constraint}")
    cfg.append("CHECK_DEADLOCK FALSE")
    (wd / f"{mod}.cfg").write_text("\n".join(cfg) + "\n")
    args = []
    if coverage:
        args += ["-coverage", "1"]
    if simulate:
        args += ["-simulate", f"num={simulate['num']}", "-depth", str(simulate["depth"]), "-seed", str(seed)]
    r = run_tlc(mod, f"{mod}.cfg", wd=wd, workers=workers, args=args, timeout=timeout, specdir=wd, lib=SPEC, heap=heap)
    if r.error and not r.violated and "TLC-TIMEOUT" not in r.out:
        i = r.out.find("Error:")
        raise MachineryError(f"TLC failed on {mod}: " + r.out[max(0, i - 200):i + 1500] + " ... " + r.out[-600:])
    return r


def schedules(r: TlcResult, limit: int | None = None, rng=None):
    """-> (cfgs: id -> world cfg dict, list of (cfg id, 'done'|'open', [[a, x], ...])), distinct schedules; a seeded
    sample of `limit` of them when there are more"""
    cfgs = {}
    for ch in tla_chunks(r.out, "CFGS"):
        for c in parse_tla(ch)[1]:
            cfgs[c["id"]] = c
    out = []
    seen = set()
    for o in json_lines(r, "SCHED", limit, rng, dedupe=True):
        h = [[e["a"], e["x"]] for e in o["h"]]
        key = (o["c"], tuple(map(tuple, h)))
        if key in seen:
            continue
        seen.add(key)
        out.append((o["c"], o["st"], h))
    if not cfgs:
        raise MachineryError("no CFGS line in TLC output: " + r.out[-1500:])
    return cfgs, out


# ---- configurations chosen by the harness, handed to TLC as TLA+ text ----
def tla_val(v) -> str:
    if isinstance(v, bool):
        return "TRUE" if v else "FALSE"
    if isinstance(v, int):
        return str(v)
    if isinstance(v, str):
        return '"%s"' % v
    if isinstance(v, (list, tuple)):
        return "<<" + ", ".join(tla_val(x) for x in v) + ">>"
    if isinstance(v, dict):
        return "[" + ", ".join(f"{k} |-> {tla_val(x)}" for k, x in v.items()) + "]"
    raise TypeError(v)


def cfg_tla(over: dict) -> str:
    if not over:
        return "DefaultCfg"
    return "[DefaultCfg EXCEPT " + ", ".join(f"!.{k} = {tla_val(v)}" for k, v in over.items()) + "]"


def cfgs_tla(overs: list[dict]) -> str:
    return "Numbered({" + ",\n  ".join(cfg_tla(o) for o in overs) + "})"


# ---- the adversarial single-handler model spec/Solo.tla ----
def run_solo(wd: Path, name: str, side: str, cfgs: str, cats, depth: int, props, allowed=(), pre=(), emit: bool = True,
             workers: int | str = 16, timeout: int = 3600, heap: str = "6g") -> TlcResult:
    mod = f"MCs_{name}"
    (wd / f"{mod}.tla").write_text(
        f"---- MODULE {mod} ----\nEXTENDS MC_Solo\nTheCfgs == {cfgs}\nTheProps == <<{', '.join(chr(34) + p + chr(34) for p in props)}>>\n"
        f"TheAllowed == {{{', '.join('<<%s, %s>>' % (chr(34) + a + chr(34), chr(34) + b + chr(34)) for a, b in allowed)}}}\n"
        + "ThePre == <<" + ", ".join(tla_set(x) for x in pre) + ">>\n"
        + ("ASSUME PrintCfgs(TheCfgs)\n" if emit else "") + "====\n")
    cfg = ["SPECIFICATION Spec", "CONSTANTS", f'  Side = "{side}"', "  Pre <- ThePre", "  Cfgs <- TheCfgs", f"  Depth = {depth}", "  Props <- TheProps",
           "  Allowed <- TheAllowed", f"  Emit = {'TRUE' if emit else 'FALSE'}", f"  Cats = {tla_set(cats)}", "  InputsOf <- Inputs",
           "INVARIANT NoViolation"] + (["INVARIANT EmitSeq"] if emit else []) + ["CHECK_DEADLOCK FALSE"]
    (wd / f"{mod}.cfg").write_text("\n".join(cfg) + "\n")
    r = run_tlc(mod, f"{mod}.cfg", wd=wd, workers=workers, timeout=timeout, specdir=wd, lib=SPEC, heap=heap)
    if r.error and not r.violated and "TLC-TIMEOUT" not in r.out:
        i = r.out.find("Error:")
        raise MachineryError(f"TLC failed on {mod}: " + r.out[max(0, i - 200):i + 1500] + " ... " + r.out[-600:])
    return r


def solo_sequences(r: TlcResult, limit: int | None = None, rng=None):
    cfgs = {}
    for ch in tla_chunks(r.out, "CFGS"):
        for c in parse_tla(ch)[1]:
            cfgs[c["id"]] = c
    # the input sequences on which a monitor is false in the model: always executed on the code as well
    vseqs = [(o["c"], o["ins"]) for o in json_lines(r, "VSOLO")]
    seqs = [(o["c"], o["ins"]) for o in json_lines(r, "SOLO", limit, rng)]
    from common import tagged_lines
    solo_sequences.signatures = tagged_lines.signatures
    viol = [parse_tla(ch) for ch in tla_chunks(r.out, "MODELVIOLATION")]
    solo_sequences.violating = vseqs
    return cfgs, seqs, viol

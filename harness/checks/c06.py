"""C06 - NAKs request exactly what is missing.

model      : spec/Solo.tla, destination side, acknowledged mode: the segments of a grid-segmented file in every arrival order
             with loss and duplication, Metadata and EOF at any position, polls and NAK-timer expiries, immediate and deferred
             NAK mode, maximum packet lengths that allow 1 / 2 / many requests per NAK PDU; the C06 monitor (an independent
             interval model of the stored bytes) is an invariant of every input sequence over DstCore
spec->code : sequences replayed into a real DestHandler
code->spec : conformance + monitor C06; grid-driven destination runs answered like a lossy source; two-entity fault schedules
"""
from flow import Run, replay_file

PROP = "C06"


def run(tier: str, keep: bool = False) -> int:
    r = Run(PROP, tier)
    q = r.quick
    props = ["C06", "C05", "C10"]
    fam = ('Numbered({ [SoloBase(3, 1, n) EXCEPT !.immNak = i, !.maxPkt = mp, !.closure = c] : n \\in {3, 4}, i \\in BOOLEAN, '
           'mp \\in {27, 35, 512}, c \\in {FALSE} })')
    r.solo("arrivals", "D", fam, ["md", "fd", "eof", "poll", "tick"], 5, props, limit=8000 if q else 80000)
    r.solo("afterEof", "D", fam, ["md", "fd", "poll", "tick"], 6, props, pre=[["md", "fd"], ["fd", "eof"], ["eof", "fd"]],
           limit=6000 if q else 80000)
    # three and more gaps with room for one or two requests per NAK PDU: sequences split over three and more PDUs
    famG = 'Numbered({ [SoloBase(3, 1, 6) EXCEPT !.immNak = FALSE, !.maxPkt = mp] : mp \\in {27, 35} })'
    r.solo("manygaps", "D", famG, ["poll", "tick"], 7, props, pre=[["md"], ["fd"], ["fd"], ["fd"], ["eof"], ["poll"]])
    r.driver("dst_grid", 600 if q else 10000, props)
    r.schedules("pairK2", "FamAck(3, {1, 3})", ["C03", "C06", "C10"], K=2, faults=["drop", "dup", "swap"], limit=500 if q else None)
    r.judge()
    return r.finish(assumptions=["File Data PDUs are aligned to the sender's segment grid (what a real source sends and re-sends); "
                                 "requests are judged against the bytes stored before the call that emitted them",
                                 "scope enclosure and encoded length are demanded of deferred NAK sequences (weaker reading)"], keep=keep)


def replay(path: str) -> int:
    return replay_file(PROP, path)

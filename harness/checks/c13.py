"""C13 - unacknowledged transfers tolerate EOF overtaking file data up to the check limit.

model      : spec/Solo.tla, destination side, unacknowledged mode: Metadata, the grid segments in any order / subset, EOF at any
             position, clock ticks and polls, check limits 1..3: the C13 monitor (an observer that follows the check timer from
             the clock) is an invariant of every input sequence; source side with closure: put, polls, ticks, Finished; the
             closed model with reordering faults in unacknowledged mode (invariant C01)
spec->code : sequences and schedules executed on the real handlers with the virtual clock
code->spec : conformance + monitor C13 on the observed values (file completeness by the bit-serial TLA+ checksum)
"""
from flow import Run, replay_file

PROP = "C13"


def run(tier: str, keep: bool = False) -> int:
    r = Run(PROP, tier)
    q = r.quick
    props = ["C13", "C05", "C10", "C14"]
    famD = ('Numbered({ [SoloBase(1, 1, n) EXCEPT !.mode = "UNACK", !.closure = c, !.chkLim = l, !.chk = k] : n \\in {2, 3}, c \\in BOOLEAN, '
            'l \\in {1, 2, 3}, k \\in {"CRC32", "CRC32C"} })')
    r.solo("late", "D", famD, ["fd", "eof", "tick", "poll"], 6 if q else 7, props, pre=[["md"]], limit=8000 if q else 80000)
    famS = 'Numbered({ [SoloBase(2, 1, n) EXCEPT !.mode = "UNACK", !.closure = TRUE, !.fhS = f] : n \\in {0, 1}, f \\in {FhDefault, [FhDefault EXCEPT !.CHECK_LIMIT_REACHED = "ignore"], [FhDefault EXCEPT !.CHECK_LIMIT_REACHED = "abandon"]} })'
    r.solo("closure", "S", famS, ["poll", "tick", "fin"], 7, props, pre=[["put"], ["poll"]])
    pair = 'Numbered({ c \\in FamAll(3, {2, 3}, {"CRC32"}) : c.mode = "UNACK" })'
    r.model("reorderK2", pair, K=2, faults=["swap", "drop", "delay"], pacing="free", invariants=["C01"], ticks=[1000])
    r.schedules("reorder", pair, ["C01", "C13", "C10"], K=2, faults=["swap", "drop"], limit=600 if q else None)
    r.schedules("simLate", pair, ["C01", "C13", "C10"], K=3, faults=["swap", "drop", "delay"], pacing="free", ticks=[400, 1000],
                simulate=dict(num=300 if q else 6000, depth=80), maxhist=80, workers=4)
    r.driver("dst_random", 400 if q else 6000, props, leave=0.0, mode="UNACK")
    r.judge()
    return r.finish(keep=keep)


def replay(path: str) -> int:
    return replay_file(PROP, path)

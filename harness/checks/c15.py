"""C15 - user indications are faithful, causally ordered and gated by configuration.

model      : spec/Solo.tla on both sides under all 16 settings of the four indication switches, with plain / originating-id /
             proxy-put-response user messages: the C15 monitor (gating, one indication per corresponding event with the
             event's parameters, causal order, transaction id, Transaction-Finished = Finished PDU) is an invariant of every
             input sequence over the transducers
spec->code : sequences replayed into lone real handlers; two-entity schedules (nominal, faulty, cancelled) under sampled switch
             settings executed on the real pair
code->spec : conformance (indications are a compared clause) + monitor C15 on the observed indications
"""
import itertools

from flow import Run, replay_file
from models import cfgs_tla

PROP = "C15"
ORIG = [99, 102, 100, 112, 10, 0x11, 0, 5, 0, 7]        # originating transaction id: source entity 5, sequence number 7
PROXY_RESP = [99, 102, 100, 112, 7, 0, 0]
MSGS = [[], [[1, 2, 3]], [ORIG], [ORIG, PROXY_RESP], [[1], ORIG, [2]]]


def ind(bits):
    return dict(eofSent=bool(bits & 1), eofRecv=bool(bits & 2), segRecv=bool(bits & 4), finished=bool(bits & 8))


def run(tier: str, keep: bool = False) -> int:
    r = Run(PROP, tier)
    q = r.quick
    props = ["C15", "C10"]
    inds = ('{[eofSent |-> a, eofRecv |-> b, segRecv |-> c, finished |-> d] : a \\in BOOLEAN, b \\in BOOLEAN, c \\in BOOLEAN, d \\in BOOLEAN}')
    famD = f'Numbered({{ [SoloBase(2, 1, 2) EXCEPT !.mode = m, !.indD = i] : m \\in {{"ACK", "UNACK"}}, i \\in {inds} }})'
    famS = (f'Numbered({{ [SoloBase(2, 1, 2) EXCEPT !.mode = m, !.closure = c, !.indS = i, !.msgs = g] : m \\in {{"ACK", "UNACK"}}, '
            f'c \\in BOOLEAN, i \\in {inds}, g \\in {{<<>>, << <<99, 102, 100, 112, 10, 17, 0, 5, 0, 7>> >>, '
            f'<< <<99, 102, 100, 112, 10, 17, 0, 5, 0, 7>>, <<99, 102, 100, 112, 7, 0, 0>> >>}} }})')
    r.solo("dst", "D", famD, ["md", "fd", "eof", "eofcancel", "ack", "poll", "cancel", "tick"], 4, props,
           limit=6000 if q else 60000)
    r.solo("src", "S", famS, ["poll", "nak", "ack", "fin", "cancel", "tick"], 4 if q else 5, props, pre=[["put"]],
           limit=6000 if q else 60000)
    rng = r.rng
    cfgs = []
    for mode, closure, imm in itertools.product(["ACK", "UNACK"], [False, True], [True, False]):
        for _ in range(2 if q else 8):
            n = rng.choice([0, 1, 3])
            cfgs.append(dict(mode=mode, closure=closure, immNak=imm, segLen=1, ackLim=3, nakLim=3, chkLim=3, file=list(range(11, 11 + n)),
                             indS=ind(rng.randrange(16)), indD=ind(rng.randrange(16)), msgs=rng.choice(MSGS)))
    fam = cfgs_tla(cfgs)
    r.schedules("nominal", fam, ["C02", "C15", "C10"], K=0)
    r.schedules("faultyK1", fam, ["C15", "C10"], K=1, faults=["drop", "dup", "swap"], limit=500 if q else None)
    r.schedules("cancelled", fam, ["C15", "C12", "C10"], K=0, cancels=["S", "D"], limit=400 if q else None)
    r.driver("dst_random", 300 if q else 5000, props, leave=0.0)
    r.driver("src_random", 300 if q else 5000, props, leave=0.0)
    r.judge()
    return r.finish(assumptions=["every queued PDU is retrieved after each call (so that the PDUs of one call are known)",
                                 "Transaction-Finished at the sender is demanded in its causal order only (a cancelled unacknowledged "
                                 "transfer ends without one; the statement does not cover that case)"], keep=keep)


def replay(path: str) -> int:
    return replay_file(PROP, path)

"""C20 - PDU routing agrees with what each handler accepts.

model      : spec/RoutingMC.tla - over every PDU kind x acknowledged directive x direction x mode x id width x CRC flag and every
             handler situation (each step, either mode) the statement's routing table (Routing.tla) agrees with the admission
             relations AdmitS / AdmitD of the transducers: routed here => never refused as the other side's; routed there =>
             always refused with a protocol exception
spec->code : every point is built with spacepackets and sent through the real get_packet_destination, and offered (with otherwise
             valid addressing) to real handlers stopped in every step of nominal transfers in both modes
code->spec : spec/RoutingTrace.tla judges the observed routing results, the observed exception classes and the ACK PDUs returned
             by the real acknowledge_inactive_eof_pdu for every condition code x status x header configuration
"""
from __future__ import annotations

import copy
import itertools
import json
import shutil
import time
from pathlib import Path

from common import MachineryError, Outcome, parse_tla, run_tlc, seed, tla_chunks, workdir, write_evidence

PROP = "C20"
KINDS = ["FD", "MD", "EOF", "PROMPT", "ACK", "FIN", "NAK", "KA"]


def pdu_abs(kind: str, acked: str, h: dict) -> dict:
    nf = dict(set=False, v=[])
    return dict(
        FD=dict(h=h, t="FD", off=0, data=[1, 2]),
        MD=dict(h=h, t="MD", closure=False, chkType="CRC32", size=2, srcName="s/src.bin", dstName="d/dst.bin", srcBase="src.bin", opts=[]),
        EOF=dict(h=h, t="EOF", cond="NO_ERROR", size=2, chk=[0, 1], floc=nf),
        PROMPT=dict(h=h, t="PROMPT", resp=0),
        ACK=dict(h=h, t="ACK", acked=acked, cond="NO_ERROR", tstat="ACTIVE"),
        FIN=dict(h=h, t="FIN", cond="NO_ERROR", deliv="DATA_COMPLETE", fstat="FILE_RETAINED", floc=nf),
        NAK=dict(h=h, t="NAK", sos=0, eos=2, reqs=[[0, 1]]),
        KA=dict(h=h, t="KA", progress=1))[kind]


def run(tier: str, keep: bool = False) -> int:
    from spacepackets.cfdp import ConditionCode
    from spacepackets.cfdp.pdu import TransactionStatus

    from cfdppy.handler.common import PacketDestination, get_packet_destination
    from cfdppy.handler.dest import acknowledge_inactive_eof_pdu
    from world import World, mkcfg
    t0 = time.time()
    wd = workdir(PROP)
    out = Outcome(PROP)
    q = tier == "quick"
    mc = run_tlc("RoutingMC", "RoutingMC.cfg", wd=wd, workers=1, timeout=1200)
    model_bad = "BAD" in mc.out or not mc.completed
    recs = []
    # 1. the routing helper over the full space
    w = World(mkcfg())
    try:
        for kind, acked, d, mode, width, crc, lf in itertools.product(KINDS, ["EOF", "FIN"], ["TR", "TS"], ["ACK", "UNACK"], [1, 2, 4, 8],
                                                                      [False, True], [False, True]):
            h = dict(dir=d, mode=mode, crc=crc, lf=lf, sw=width, sv=1, dw=width, dv=2, qw=2, qv=0)
            p = w.conc(pdu_abs(kind, acked, h))
            got, exc = "none", "none"
            try:
                r = get_packet_destination(p)
                got = "S" if r == PacketDestination.SOURCE_HANDLER else "D"
            except Exception as e:  # noqa: BLE001
                exc = type(e).__name__
            recs.append(dict(id=len(recs) + 1, k="route", kind=kind, acked=acked, h=h, got=got, exc=exc))
        # 3. acknowledge_inactive_eof_pdu
        for cond, status, mode, width, crc in itertools.product([c for c in ConditionCode if 0 <= c.value <= 15], TransactionStatus, ["ACK", "UNACK"], [1, 2, 8], [False, True]):
            h = dict(dir="TR", mode=mode, crc=crc, lf=False, sw=width, sv=1, dw=width, dv=2, qw=2, qv=5)
            a = dict(h=h, t="EOF", cond=cond.name, size=3, chk=[1, 2], floc=dict(set=cond != ConditionCode.NO_ERROR, v=[0, 1]))
            if a["floc"]["set"] is False:
                a["floc"]["v"] = []
            eof = w.conc(a)
            exc = "none"
            ack = dict(t="none", acked="none", cond="none", tstat="none", h=h, rt="none")
            try:
                ack = w.absp(acknowledge_inactive_eof_pdu(eof, status))
            except Exception as e:  # noqa: BLE001
                exc = type(e).__name__
            recs.append(dict(id=len(recs) + 1, k="inactive", cond=cond.name, status=status.name, h=h, exc=exc, ack=ack))
    finally:
        w.cleanup()
    n_route = len(recs)
    # 2. every PDU kind offered to real handlers stopped in every step of nominal transfers
    import pair as pairmod
    nsteps = set()
    for mode, closure, size in itertools.product(["ACK", "UNACK"], [False, True], [0, 3]):
        cfg = mkcfg(mode=mode, closure=closure, segLen=2, file=list(range(size)))
        probe = pairmod.Pair(cfg)
        probe.put()
        probe.run_on()
        ncalls = sum(1 for e in probe.w.ev if e["side"] != "E")
        probe.w.cleanup()
        for stop in range(0, ncalls + 1, 1 if not q else 1):
            for side in ("S", "D"):
                for kind, acked in [(k, a) for k in KINDS for a in (["EOF", "FIN"] if k == "ACK" else ["EOF"])]:
                    p = pairmod.Pair(cfg)
                    try:
                        p.put()
                        while sum(1 for e in p.w.ev if e["side"] != "E") < stop + 1 and not p.done():
                            p.run_on(max_turns=1, one_txn=True)
                        hnd = p.w.h[side]
                        t = hnd.transaction_id
                        wdt = max(cfg["sIdW"], cfg["dIdW"])
                        h = dict(dir="TS" if side == "S" else "TR", mode=mode, crc=False, lf=False, sw=wdt, sv=cfg["sId"], dw=wdt, dv=cfg["dId"],
                                 qw=cfg["seqW"], qv=t.seq_num.value if t is not None else cfg["seq0"])
                        step = hnd.step.name
                        e = p.w.call(side, "fsm", p.w.conc(pdu_abs(kind, acked, h)))
                        nsteps.add((side, step, mode))
                        recs.append(dict(id=len(recs) + 1, k="offer", side=side, kind=kind, acked=acked, step=step, mode=mode, exc=e["exc"]))
                    finally:
                        p.w.cleanup()
    # TLC judges
    from concurrent.futures import ThreadPoolExecutor
    nshard = 8
    verdicts = {}

    def judge(k):
        f = wd / f"rt_{k}.json"
        f.write_text(json.dumps(recs[k::nshard]))
        return run_tlc("RoutingTrace", "RoutingTrace.cfg", wd=wd, workers=1, env={"TRACE_FILE": str(f)}, timeout=1800, stack="16m")
    with ThreadPoolExecutor(max_workers=nshard) as ex:
        for res in ex.map(judge, range(nshard)):
            for ch in tla_chunks(res.out, "VERDICT"):
                _, rid, clauses = parse_tla(ch)
                verdicts[rid] = clauses
    if len(verdicts) != len(recs):
        raise MachineryError(f"{len(verdicts)} verdicts for {len(recs)} routing records")
    for v in recs:
        for c in verdicts[v["id"]]:
            out.monitor_hit(dict(clause=c, k=v["k"], kind=v.get("kind", v.get("cond")), acked=v.get("acked", v.get("status")), side=v.get("side", "none"),
                                 step=v.get("step", "none"), exc=v["exc"]), dict(kind="routing", rec=v), f"r{v['id']}")
    write_evidence(PROP, tier, "model_checking", dict(
        states=512 * 19, transitions=512 * 19 * 2, exhaustive=True, traces_validated_against_impl=len(recs),
        routing_points=n_route, handler_offers=len(recs) - n_route, handler_situations=len(nsteps), evaluations=len(recs),
        distinct_nontrivial=len({(v["k"], v.get("kind"), v.get("acked"), v.get("side"), v.get("step"), v["exc"]) for v in recs}),
        rule="states = PDU points x handler situations of the constant-level TLC check (RoutingMC: 512 points x 19 steps, both handler "
             "modes); every point sent through the real routing helper; every PDU kind offered to real handlers stopped after every "
             "call of nominal transfers (2 modes x closure x 2 sizes); acknowledge_inactive_eof_pdu for all condition codes x "
             "statuses x header variants",
        samples=[recs[0], recs[n_route - 1], recs[-1]],
        model_result="agreement violated" if model_bad else "no error",
        checker_cmd="tlc RoutingMC.tla (ASSUME Agreement over the full space), tlc RoutingTrace.tla (judging)"),
        time.time() - t0, len(out.violations),
        assumptions=["TLC 1.8.0 evaluates the TLA+ operators correctly", "'otherwise valid addressing' = the direction flag, entity ids and "
                     "sequence number the offered handler expects"])
    rc = out.finish()
    if model_bad and rc == 0:
        raise MachineryError("RoutingMC: routing table and the transducers' admission relations disagree: " + mc.out[-800:])
    if not keep:
        shutil.rmtree(wd, ignore_errors=True)
    return rc


def replay(path: str) -> int:
    print("C20 records are single calls; re-run ./check C20 to re-evaluate (the space is enumerated completely each time)")
    return run("quick")

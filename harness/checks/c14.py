"""C14 - declared faults take the effect configured in the fault-handler table.

model      : spec/Solo.tla on both sides with fault-handler tables drawn from {ignore, cancel, abandon}^conditions and inputs that
             trigger every declaration site (positive ACK limit, NAK limit, check limit, checksum failure, file size error,
             filestore rejection): the C14 monitor is an invariant of every input sequence; the closed model with faults under
             non-default tables
spec->code : sequences / schedules executed on the real handlers; the configuration API enumerated over every condition code
code->spec : conformance (fault callbacks are a compared clause) + monitor C14 on the observed callbacks, indications and PDUs
"""
import itertools

from flow import Run, replay_file
from models import cfgs_tla, tla_val

PROP = "C14"
CODES = ["ignore", "cancel", "abandon"]


def table(**kw) -> str:
    return "[FhDefault EXCEPT " + ", ".join(f"!.{k} = {tla_val(v)}" for k, v in kw.items()) + "]"


def run(tier: str, keep: bool = False) -> int:
    r = Run(PROP, tier)
    q = r.quick
    props = ["C14", "C10"]
    tablesD = "{" + ", ".join(table(FILE_CHECKSUM_FAILURE=a, FILE_SIZE_ERROR=b, FILESTORE_REJECTION=b, CHECK_LIMIT_REACHED=c, NAK_LIMIT_REACHED=c,
                                    POSITIVE_ACK_LIMIT_REACHED=a) for a, b, c in itertools.product(CODES, CODES, CODES)) + "}"
    famD1 = f'Numbered({{ [SoloBase(1, 1, 2) EXCEPT !.mode = "UNACK", !.fhD = f, !.closure = c] : f \\in {tablesD}, c \\in BOOLEAN }})'
    r.solo("dstUnack", "D", famD1, ["fd", "fdodd", "wrej", "eof", "eofodd", "tick", "poll"], 4 if q else 5, props, pre=[["md"]],
           limit=7000 if q else 60000)
    famD2 = f'Numbered({{ [SoloBase(1, 1, 2) EXCEPT !.fhD = f, !.immNak = FALSE] : f \\in {tablesD} }})'
    r.solo("dstAck", "D", famD2, ["fd", "fdodd", "eof", "eofodd", "tick", "poll"], 5, props, pre=[["md"]],
           limit=7000 if q else 60000)
    # FILESTORE_REJECTION declared while the Metadata PDU is handled (create / truncate refused), first PDU or re-requested
    famD3 = ('Numbered({ [SoloBase(1, 1, 2) EXCEPT !.mode = m, !.dstShape = sh, !.dstOld = <<9, 9>>, !.closure = TRUE, !.fhD = [FhDefault EXCEPT '
             '!.FILESTORE_REJECTION = f]] : m \\in {"ACK", "UNACK"}, sh \\in {"file", "existing"}, f \\in {"ignore", "cancel", "abandon"} })')
    r.solo("dstMdRej", "D", famD3, ["md", "mdwrej", "fd", "wrej", "eof", "poll", "tick"], 4 if q else 5, props, limit=5000 if q else 60000)
    # the fourth handler code, notice of suspension (a stub in the library: callback, transaction continues - but callers that
    # test "!= IGNORE_ERROR" stop what they were doing): one table with it everywhere, both sides
    sus = "[c \\in DOMAIN FhDefault |-> \"suspend\"]"
    r.solo("dstSuspend", "D", f'Numbered({{ [SoloBase(1, 1, 2) EXCEPT !.mode = m, !.closure = TRUE, !.fhD = {sus}, !.immNak = FALSE] : m \\in {{"ACK", "UNACK"}} }})',
           ["md", "mdwrej", "fd", "fdodd", "wrej", "eof", "eofodd", "tick", "poll"], 5, props, limit=3000 if q else 40000)
    r.solo("srcSuspend", "S", f'Numbered({{ [SoloBase(1, 1, 1) EXCEPT !.mode = m, !.closure = TRUE, !.fhS = {sus}] : m \\in {{"ACK", "UNACK"}} }})',
           ["poll", "tick", "cancel", "ack"], 8 if q else 9, props, pre=[["put"], ["poll"], ["poll"], ["poll"]])
    tablesS = "{" + ", ".join(table(POSITIVE_ACK_LIMIT_REACHED=a, CHECK_LIMIT_REACHED=b) for a, b in itertools.product(CODES, CODES)) + "}"
    famS = f'Numbered({{ [SoloBase(1, 1, 1) EXCEPT !.mode = m, !.closure = TRUE, !.fhS = f] : m \\in {{"ACK", "UNACK"}}, f \\in {tablesS} }})'
    r.solo("src", "S", famS, ["poll", "tick", "cancel", "ack"], 8 if q else 9, props, pre=[["put"], ["poll"], ["poll"], ["poll"]])
    rng = r.rng
    cfgs = []
    for _ in range(10 if q else 60):
        cfgs.append(dict(mode=rng.choice(["ACK", "UNACK"]), closure=rng.random() < 0.5, immNak=rng.random() < 0.5, segLen=1, ackLim=2, nakLim=2,
                         chkLim=2, file=[11, 12, 13][:rng.choice([1, 3])],
                         fhS={**_fh(), **{c: rng.choice(CODES + ["suspend"]) for c in ("POSITIVE_ACK_LIMIT_REACHED", "CHECK_LIMIT_REACHED")}},
                         fhD={**_fh(), **{c: rng.choice(CODES + ["suspend"]) for c in ("POSITIVE_ACK_LIMIT_REACHED", "NAK_LIMIT_REACHED", "CHECK_LIMIT_REACHED",
                                                                          "FILE_CHECKSUM_FAILURE", "FILE_SIZE_ERROR", "FILESTORE_REJECTION")}}))
    r.schedules("pairK2", cfgs_tla(cfgs), props, K=2, faults=["drop", "flip", "wrej"], limit=800 if q else 6000)
    r.schedules("silent", cfgs_tla(cfgs), props, K=0, cuts=["sd", "ds"], limit=400 if q else 4000)
    n = 400 if q else 6000
    r.driver("dst_random", n, props, leave=0.0, default_fh=False)
    r.driver("src_random", n, props, leave=0.0, default_fh=False)
    r.driver("fh_table", 1, props)
    r.judge()
    return r.finish(assumptions=["a fault declared while a cancellation is already in progress abandons the transaction by design "
                                 "(CFDP 4.11.2.2.3 / 4.11.2.3.3): exempt from the 'configured code decides' clause",
                                 "the progress argument of the callback is compared with the transducer's prediction (conformance), not "
                                 "by the monitor"], keep=keep)


def _fh():
    from world import FH_DEFAULT
    return dict(FH_DEFAULT)


def replay(path: str) -> int:
    return replay_file(PROP, path)

"""C18 - lost-segment bookkeeping refines an exact interval set.

model      : spec/LostSeg.tla (ADT with ghost byte set), exhaustive for offsets 0..MaxOff
spec->code : every transition TLC explores is executed on a real LostSegmentTracker
code->spec : seeded random histories (offsets 0..40) executed on the real tracker
verdict    : spec/LostSegTrace.tla evaluates the property clauses on the observed values (TLC)
"""
from __future__ import annotations

import json
import random
import shutil
import time

from common import (MachineryError, Outcome, parse_tla, run_tlc, seed, tla_chunks, workdir,
                    write_evidence)

PROP = "C18"
CFG = """SPECIFICATION Spec
CONSTANT MaxOff = {n}
CONSTANT EmitTransitions = {emit}
{body}
CHECK_DEADLOCK FALSE
"""
BODY_MC = "INVARIANT Exact\nINVARIANT WellFormed\nINVARIANT AfterCoalesce\nPROPERTY StepProps"
BODY_EMIT = "ACTION_CONSTRAINT Emit\nVIEW View"


def real_op(pre, op, s, e):
    from cfdppy.handler.dest import LostSegmentTracker

    t = LostSegmentTracker()
    t.lost_segments = dict((a, b) for a, b in pre)
    return apply_op(t, op, s, e)


def apply_op(t, op, s, e):
    ret, exc = "none", "none"
    try:
        if op == "add":
            t.add_lost_segment((s, e))
        elif op == "remove":
            ret = "true" if t.remove_lost_segment((s, e)) else "false"
        elif op == "coalesce":
            t.coalesce_lost_segments()
        else:
            raise MachineryError(op)
    except MachineryError:
        raise
    except Exception as x:  # noqa: BLE001 - the class name is what the monitor judges
        exc = type(x).__name__
    return dict(op=op, s=s, e=e, ret=ret, exc=exc, segs=[[a, b] for a, b in t.lost_segments.items()])


def random_history(rng, n, length):
    from cfdppy.handler.dest import LostSegmentTracker

    t = LostSegmentTracker()
    ghost = set()
    ops = []
    for _ in range(length):
        segs = sorted(t.lost_segments.items())
        r = rng.random()
        if r < 0.45:
            s = rng.randrange(0, n)
            e = rng.randrange(s + 1, min(n, s + 8) + 1)
            if any(x in ghost for x in range(s, e)):
                continue
            ops.append(apply_op(t, "add", s, e))
            ghost |= set(range(s, e))
        elif r < 0.85:
            kind = rng.random()
            if segs and kind < 0.6:  # within one tracked range
                a, b = rng.choice(segs)
                s = rng.randrange(a, b + 1)
                e = rng.randrange(s, b + 1)
            elif segs and kind < 0.75:  # straddles the end of a tracked range
                a, b = rng.choice(segs)
                s = rng.randrange(a, b)
                e = rng.randrange(b + 1, b + 4)
            else:  # touches none
                s = rng.randrange(0, n)
                e = rng.randrange(s, min(n, s + 5) + 1)
                if any(x in ghost for x in range(s, e)):
                    continue
            straddle = s < e and any(a <= s < b < e for a, b in segs)
            ops.append(apply_op(t, "remove", s, e))
            if not straddle:
                ghost -= set(range(s, e))
        else:
            ops.append(apply_op(t, "coalesce", 0, 0))
    return ops


def run(tier: str, keep: bool = False) -> int:
    t0 = time.time()
    wd = workdir(PROP)
    out = Outcome(PROP)
    n = 5 if tier == "quick" else 7
    # 1. the model: exhaustive
    (wd / "mc.cfg").write_text(CFG.format(n=n, emit="FALSE", body=BODY_MC))
    mc = run_tlc("LostSeg", str(wd / "mc.cfg"), wd=wd, workers=16, args=["-coverage", "1"])
    if mc.violated:
        # the design itself violates the property: reported after confirmation on the code below
        out.notes.append(f"MODEL: TLC reports {mc.violated} on LostSeg.tla")
    elif not mc.completed:
        raise MachineryError("TLC did not complete on LostSeg: " + mc.out[-800:])
    # 2. every transition of the model, executed on the real tracker
    (wd / "emit.cfg").write_text(CFG.format(n=n, emit="TRUE", body=BODY_EMIT))
    em = run_tlc("LostSeg", str(wd / "emit.cfg"), wd=wd, workers=1)
    if not em.completed:
        raise MachineryError("TLC emit run failed: " + em.out[-800:])
    trs = {}
    for ch in tla_chunks(em.out, "TR"):
        _, pre, last, post = parse_tla(ch)
        trs[json.dumps([pre, last["op"], last["s"], last["e"]])] = (pre, last, post)
    if len(trs) < 50:
        raise MachineryError(f"only {len(trs)} transitions emitted")
    traces = []
    for i, (pre, last, _post) in enumerate(trs.values()):
        traces.append(dict(tid=i, n=n + 4, pre=pre, ops=[real_op(pre, last["op"], last["s"], last["e"])]))
    n_tr = len(traces)
    # 3. seeded random histories on the real tracker
    rng = random.Random(seed() * 7919 + 18)
    n_hist = 300 if tier == "quick" else 3000
    for i in range(n_hist):
        traces.append(dict(tid=n_tr + i, n=44, pre=[], ops=random_history(rng, 40, 30 if tier == "quick" else 60)))
    (wd / "traces.json").write_text(json.dumps(traces))
    # 4. TLC decides
    tv = run_tlc("LostSegTrace", "LostSegTrace.cfg", wd=wd, workers=1, env={"TRACE_FILE": str(wd / "traces.json")})
    verdicts = {}
    for ch in tla_chunks(tv.out, "VERDICT"):
        _, tid, k, viol, drift, at = parse_tla(ch)
        verdicts[tid] = (k, viol, drift, at)
    if len(verdicts) != len(traces):
        raise MachineryError(f"{len(verdicts)} verdicts for {len(traces)} traces: " + tv.out[-1500:])
    distinct = set()
    for t in traces:
        k, viol, drift, at = verdicts[t["tid"]]
        if k == "precondition":
            raise MachineryError(f"driver produced an operation outside the property's precondition: {t}")
        for o in t["ops"]:
            distinct.add((o["op"], o["ret"], o["exc"], len(o["segs"])))
        if viol:
            o = t["ops"][at - 1]
            for c in sorted(viol):
                out.monitor_hit(dict(clause=c, op=o["op"], exc=o["exc"], ret=o["ret"]), t, f"t{t['tid']}")
        elif drift:
            out.drift.append(dict(tid=t["tid"], clauses=sorted(drift), at=at))
    write_evidence(PROP, tier, "model_checking", dict(
        states=mc.distinct, transitions=mc.generated, exhaustive=True,
        traces_validated_against_impl=len(traces),
        model_transitions_replayed_on_impl=n_tr, random_histories=n_hist,
        samples=[traces[0], traces[n_tr // 2], traces[-1]],
        evaluations=sum(len(t["ops"]) for t in traces), distinct_nontrivial=len(distinct),
        rule="every transition of the exhaustive ADT model for offsets 0..%d executed on a real LostSegmentTracker, plus seeded "
             "random histories over offsets 0..40; distinct = distinct (operation, return, exception, #ranges after)" % n,
        constants=dict(MaxOff=n), conformance=dict(drift=len(out.drift)),
        model_result="violated: %s" % mc.violated if mc.violated else "no error",
        checker_cmd="tlc LostSeg.tla (MC), tlc LostSeg.tla (emit), tlc LostSegTrace.tla"),
        time.time() - t0, len(out.violations),
        assumptions=["TLC 1.8.0 evaluates the TLA+ operators correctly",
                     "operations offered only under the statement's preconditions (checked by the validator)"])
    rc = out.finish()
    if mc.violated and rc == 0:
        raise MachineryError("model violates the property but the code does not: the specification misrepresents the code")
    if not keep:
        shutil.rmtree(wd, ignore_errors=True)
    return rc


def replay(path: str) -> int:
    obj = json.loads(open(path).read())
    t = obj["trace"]
    wd = workdir(PROP + "_replay")
    ops = []
    from cfdppy.handler.dest import LostSegmentTracker

    tr = LostSegmentTracker()
    tr.lost_segments = dict((a, b) for a, b in t["pre"])
    for o in t["ops"]:
        ops.append(apply_op(tr, o["op"], o["s"], o["e"]))
    (wd / "traces.json").write_text(json.dumps([dict(tid=0, n=t["n"], pre=t["pre"], ops=ops)]))
    tv = run_tlc("LostSegTrace", "LostSegTrace.cfg", wd=wd, workers=1, env={"TRACE_FILE": str(wd / "traces.json")})
    ch = tla_chunks(tv.out, "VERDICT")
    print(ch[0] if ch else tv.out[-800:])
    _, tid, k, viol, drift, at = parse_tla(ch[0])
    if viol:
        print(f"VIOLATION property={PROP} replay={path}")
        return 1
    return 0

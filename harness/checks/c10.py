"""C10 - handlers fail only with protocol exceptions and only when the caller is at fault.

model      : spec/Solo.tla on both sides with the widest input universe (all 8 PDU kinds, right and wrong directions, ids,
             sequence numbers and modes, odd offsets / sizes / checksums, EOF (cancel), put / cancel requests, clock jumps,
             rejected writes): the C10 monitor (only protocol exceptions; 'unretrieved' only with PDUs queued; an admission
             refusal leaves state, step, progress, queue and filestore unchanged) is an invariant of every input sequence
spec->code : sequences replayed into lone real handlers
code->spec : conformance (the transducers predict the exception class of every call) + monitor C10 on the observed values;
             seeded random adversarial runs on both sides incl. deliberately unretrieved PDUs and non-default fault handlers;
             fault schedules of the closed model; the executions of the repository's own 78 tests, recorded by a pytest plugin
             (harness/pytest_cfdptrace.py) that wraps the handlers from outside and freezes the clock during each call
"""
from flow import Run, replay_file

PROP = "C10"
DST = ["md", "mdonly", "mdwrej", "fd", "fdodd", "wrej", "eof", "eofodd", "eofcancel", "ack", "poll", "tick", "cancel", "reset", "alien"]
SRC = ["put", "putodd", "poll", "tick", "nak", "nakodd", "ack", "fin", "cancel", "cancelwrong", "reset", "alien"]


def run(tier: str, keep: bool = False) -> int:
    r = Run(PROP, tier)
    q = r.quick
    fam1 = 'Numbered({ [SoloBase(2, 1, 2) EXCEPT !.mode = m, !.closure = c, !.immNak = i] : m \\in {"ACK", "UNACK"}, c \\in BOOLEAN, i \\in BOOLEAN })'
    fam2 = 'Numbered({ [SoloBase(2, 1, 2) EXCEPT !.mode = m] : m \\in {"ACK", "UNACK"} })'
    r.solo("dstwide", "D", fam2, DST, 3 if q else 4, ["C10"], limit=4000 if q else 60000)
    r.solo("dstdeep", "D", fam1, ["fd", "fdodd", "eof", "eofcancel", "ack", "poll", "tick", "cancel", "alien"], 5, ["C10"],
           pre=[["md"], ["fd", "eof"]], limit=5000 if q else 60000)
    r.solo("srcwide", "S", fam2, SRC, 3 if q else 4, ["C10"], pre=[["put", "putodd"]], limit=4000 if q else 60000)
    r.solo("srcdeep", "S", fam1, ["poll", "nak", "nakodd", "ack", "fin", "cancel", "tick", "alien"], 5 if q else 6, ["C10"],
           pre=[["put"], ["poll"], ["poll"]], limit=5000 if q else 60000)
    # the public reset() in the middle of a transaction (queued PDUs, armed timers), then a new transaction on the same handler
    # PDUs carrying another transaction's sequence number while a transaction is running
    r.solo("dststale", "D", fam2, ["stale", "fd", "eof", "poll", "ack"], 4 if q else 6, ["C10"], pre=[["md", "fd"]], limit=3000 if q else 40000)
    r.solo("dstreset", "D", fam2, ["reset", "md", "fd", "eof", "poll", "lazy", "cancel", "tick"], 5 if q else 7, ["C10"], pre=[["md"], ["fd", "eof"]],
           limit=3000 if q else 40000)
    r.solo("srcreset", "S", fam2, ["reset", "put", "poll", "lazy", "cancel", "nak", "tick"], 5 if q else 7, ["C10"], pre=[["put"], ["poll"]],
           limit=3000 if q else 40000)
    n = 400 if q else 8000
    r.driver("src_random", n, ["C10"])
    r.driver("dst_random", n, ["C10"])
    r.driver("src_random", n // 2, ["C10"], default_fh=False)
    r.driver("dst_random", n // 2, ["C10"], default_fh=False)
    r.repo_tests(["C10"])
    r.schedules("pairK2", "FamAck(3, {1, 3})", ["C10"], K=2, faults=["drop", "dup", "swap", "flip", "wrej"], limit=500 if q else None)
    r.judge()
    return r.finish(keep=keep)


def replay(path: str) -> int:
    return replay_file(PROP, path)

"""C10 - handlers fail only with protocol exceptions and only when the caller is at fault (draft)."""
from flow import Run, replay_file

PROP = "C10"


def run(tier: str, keep: bool = False) -> int:
    r = Run(PROP, tier)
    n = 400 if r.quick else 6000
    r.driver("src_random", n, ["C10"])
    r.driver("dst_random", n, ["C10"])
    r.driver("src_random", n // 2, ["C10"], default_fh=False)
    r.driver("dst_random", n // 2, ["C10"], default_fh=False)
    r.judge()
    return r.finish(keep=keep)


def replay(path: str) -> int:
    return replay_file(PROP, path)

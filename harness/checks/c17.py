"""C17 - native filestore operations match a reference file-system model.

model      : spec/Filestore.tla over spec/FilestoreOps.tla - the documented semantics of the 11 operations as a state machine over a
             small universe (files in the root and one directory level, two directories, offsets 0..MaxOff, three payloads);
             TLC explores every operation sequence up to the depth bound and checks: a refused or failing operation leaves the
             tree unchanged; success codes only when the effect happened; written data is read back and other bytes untouched;
             the tree stays well-formed
spec->code : every transition TLC explores (tree before, operation) is performed on a real NativeFilestore in a fresh sandbox
code->spec : spec/FilestoreTrace.tla recomputes the reference result for each observed (tree before, operation) and compares status
             code / exception class / data and the tree after; seeded random histories of 30 operations on one sandbox
"""
from __future__ import annotations

import json
import shutil
import tempfile
from concurrent.futures import ThreadPoolExecutor
from pathlib import Path

from common import MachineryError, parse_tla, run_tlc, tla_chunks
from flow import Run
from models import json_lines

PROP = "C17"
FILES = ["a", "b", "d1/a", "d2/b"]
DIRS = ["d1", "d2", "d1/d3"]


def snapshot(root: Path) -> list:
    out = []
    for p in root.rglob("*"):
        r = p.relative_to(root).as_posix()
        out.append(dict(p=r, dir=True, d=[]) if p.is_dir() else dict(p=r, dir=False, d=list(p.read_bytes())))
    out.sort(key=lambda x: x["p"])
    return out


def build(root: Path, tree: list) -> None:
    for f in sorted(tree, key=lambda x: (not x["dir"], x["p"])):
        p = root / f["p"]
        if f["dir"]:
            p.mkdir(parents=True, exist_ok=True)
        else:
            p.parent.mkdir(parents=True, exist_ok=True)
            p.write_bytes(bytes(f["d"]))


PREFIX = dict(create_file="CREATE_", delete_file="DELETE_", rename_file="RENAME_", replace_file="REPLACE_",
              create_directory="CREATE_DIR_", remove_directory="REMOVE_DIR_")


def code_name(k: str, code) -> str:
    """The status code's name in the family of operation k (the enum has aliases: CREATE_SUCCESS = SUCCESS = 0), else its
    canonical name - a code of another operation's family keeps that family's name and is judged as such."""
    from spacepackets.cfdp.tlv import FilestoreResponseStatusCode as C
    fam = [n for n, m in C.__members__.items() if m.value == code.value and n.startswith(PREFIX[k])
           and not (PREFIX[k] == "CREATE_" and n.startswith("CREATE_DIR_"))]
    return fam[0] if fam else code.name


def perform(fs, root: Path, op: dict) -> dict:
    k = op["op"]
    p = root / op["p"]
    ret, exc, data = "none", "none", []
    try:
        if k in ("create_file", "delete_file", "create_directory"):
            ret = code_name(k, getattr(fs, k)(p))
        elif k in ("rename_file", "replace_file"):
            ret = code_name(k, getattr(fs, k)(p, root / op["q"]))
        elif k == "remove_directory":
            ret = code_name(k, fs.remove_directory(p, op["rec"]))
        elif k == "truncate_file":
            fs.truncate_file(p)
        elif k == "write_data":
            fs.write_data(p, bytes(op["data"]), op["off"])
        elif k == "read_data":
            data = list(fs.read_data(p, op["off"], op["len"]))
        elif k == "file_size":
            data = [fs.file_size(p)]
        elif k == "file_exists":
            ret = "true" if fs.file_exists(p) else "false"
        elif k == "is_directory":
            ret = "true" if fs.is_directory(p) else "false"
        else:
            raise MachineryError(k)
    except MachineryError:
        raise
    except Exception as e:  # noqa: BLE001 - the class is judged by TLC
        exc = type(e).__name__
    return dict(ret=ret, exc=exc, data=data)


def one(fs, pre: list, op: dict, rid: int) -> dict:
    root = Path(tempfile.mkdtemp(prefix="cfdpv_c17_"))
    try:
        build(root, pre)
        res = perform(fs, root, op)
        return dict(id=rid, pre=snapshot_norm(pre), op=op, post=snapshot(root), **res)
    finally:
        shutil.rmtree(root, ignore_errors=True)


def snapshot_norm(tree: list) -> list:
    return sorted([dict(p=f["p"], dir=bool(f["dir"]), d=list(f["d"])) for f in tree], key=lambda x: x["p"])


def random_history(fs, rng, rid0: int, length: int) -> list:
    root = Path(tempfile.mkdtemp(prefix="cfdpv_c17_"))
    recs = []
    try:
        for i in range(length):
            k = rng.choice(["create_file", "create_file", "delete_file", "rename_file", "replace_file", "create_directory", "remove_directory",
                            "truncate_file", "write_data", "write_data", "write_data", "read_data", "file_size", "file_exists", "is_directory"])
            paths = FILES + DIRS
            op = dict(op=k, p=rng.choice(paths))
            if k in ("rename_file", "replace_file"):
                op["q"] = rng.choice(paths)
            if k == "remove_directory":
                op["rec"] = rng.random() < 0.4
            if k == "write_data":
                op.update(p=rng.choice(FILES + ["d1"]), off=rng.choice([0, 0, 1, 2, 5, 9]), data=[rng.randrange(256) for _ in range(rng.choice([0, 1, 3, 6]))])
            if k == "read_data":
                op.update(p=rng.choice(FILES), off=rng.choice([0, 1, 3, 8]), len=rng.choice([0, 1, 4, 100]))
            if k == "file_size":
                op["p"] = rng.choice(FILES)
            pre = snapshot(root)
            res = perform(fs, root, op)
            recs.append(dict(id=rid0 + i, pre=pre, op=op, post=snapshot(root), **res))
    finally:
        shutil.rmtree(root, ignore_errors=True)
    return recs


def run(tier: str, keep: bool = False) -> int:
    r = Run(PROP, tier)
    q = r.quick
    from cfdppy.filestore import NativeFilestore
    depth, maxoff = (2, 2) if q else (3, 3)
    cfg = (f"SPECIFICATION Spec\nCONSTANTS\n  Depth = {depth}\n  MaxOff = {maxoff}\n  Emit = TRUE\nINVARIANT RefusalKeepsTree\n"
           "INVARIANT SuccessMeansEffect\nINVARIANT WriteReadBack\nINVARIANT WellFormed\nACTION_CONSTRAINT EmitTrans\nCHECK_DEADLOCK FALSE\n")
    (r.wd / "Filestore.cfg").write_text(cfg)
    mc = run_tlc("Filestore", str(r.wd / "Filestore.cfg"), wd=r.wd, workers=16, timeout=2400)
    if mc.violated:
        r.model_violated.append("Filestore:" + str(mc.violated))
    elif not mc.completed:
        raise MachineryError("Filestore model did not complete: " + mc.out[-1500:])
    r.states += mc.distinct
    r.transitions += mc.generated
    r.models.append(dict(name="Filestore", states=mc.distinct, transitions=mc.generated, wall_s=round(mc.wall, 1), constants=dict(Depth=depth, MaxOff=maxoff)))
    seen = {}
    for t in json_lines(mc.out, "FST"):
        key = json.dumps([sorted(json.dumps(f, sort_keys=True) for f in t["pre"]), t["op"]], sort_keys=True)
        seen.setdefault(key, t)
    trans = list(seen.values())
    if len(trans) < 100:
        raise MachineryError(f"only {len(trans)} transitions emitted by the filestore model")
    fs = NativeFilestore()
    recs = [one(fs, t["pre"], t["op"], i + 1) for i, t in enumerate(trans)]
    n_model = len(recs)
    for _ in range(60 if q else 1500):
        recs += random_history(fs, r.rng, len(recs) + 1, 30)
    nshard = 16
    verdicts = {}

    def judge(k):
        f = r.wd / f"fs_{k}.json"
        f.write_text(json.dumps(recs[k::nshard]))
        return run_tlc("FilestoreTrace", "FilestoreTrace.cfg", wd=r.wd, workers=1, env={"TRACE_FILE": str(f)}, timeout=2400, stack="16m")
    with ThreadPoolExecutor(max_workers=nshard) as ex:
        for res in ex.map(judge, range(nshard)):
            for ch in tla_chunks(res.out, "VERDICT"):
                _, rid, clauses = parse_tla(ch)
                verdicts[rid] = clauses
            if res.rc != 0 and "VERDICT" not in res.out:
                raise MachineryError("FilestoreTrace failed: " + res.out[-1500:])
    if len(verdicts) != len(recs):
        raise MachineryError(f"{len(verdicts)} verdicts for {len(recs)} filestore operations")
    nhit = 0
    for v in recs:
        for c in verdicts[v["id"]]:
            nhit += 1
            r.out.monitor_hit(dict(clause=c, op=v["op"]["op"], ret=v["ret"], exc=v["exc"]), dict(kind="filestore", rec=v), f"op{v['id']}")
    import time

    from common import write_evidence
    write_evidence(PROP, tier, "model_checking", dict(
        states=mc.distinct, transitions=mc.generated, exhaustive=True, traces_validated_against_impl=len(recs),
        model_transitions_replayed_on_impl=n_model, random_operations=len(recs) - n_model, evaluations=len(recs),
        distinct_nontrivial=len({(v["op"]["op"], v["ret"], v["exc"]) for v in recs}),
        rule="every distinct (tree before, operation) transition of the reference model for Depth=%d, MaxOff=%d performed on a real "
             "NativeFilestore in a fresh sandbox + seeded random histories of 30 operations; distinct = distinct (operation, status "
             "code, exception class)" % (depth, maxoff),
        samples=[recs[0], recs[n_model // 2], recs[-1]], monitor=dict(hits=nhit),
        model_result="violated: %s" % r.model_violated if r.model_violated else "no error",
        checker_cmd="tlc Filestore.tla (model + transition emission), tlc FilestoreTrace.tla (judging)"),
        time.time() - r.t0, len(r.out.violations),
        assumptions=["TLC 1.8.0 evaluates the TLA+ operators correctly",
                     "where the documentation is silent (missing parent directory for rename / create_directory, operations on "
                     "directories) the reference model records the current behaviour (DESIGN.md section 6 C17)",
                     "list_directory is outside the statement"])
    rc = r.out.finish()
    if r.model_violated and rc == 0:
        raise MachineryError(f"the reference model violates its own invariants: {r.model_violated}")
    if not keep:
        shutil.rmtree(r.wd, ignore_errors=True)
    return rc


def replay(path: str) -> int:
    from cfdppy.filestore import NativeFilestore
    from common import workdir
    obj = json.loads(Path(path).read_text())
    v = obj["trace"]["rec"]
    rec = one(NativeFilestore(), v["pre"], v["op"], 1)
    wd = workdir(PROP + "_replay")
    f = wd / "r.json"
    f.write_text(json.dumps([rec]))
    res = run_tlc("FilestoreTrace", "FilestoreTrace.cfg", wd=wd, workers=1, env={"TRACE_FILE": str(f)}, stack="16m")
    ch = tla_chunks(res.out, "VERDICT")
    clauses = parse_tla(ch[0])[2] if ch else ["no-verdict"]
    shutil.rmtree(wd, ignore_errors=True)
    print("observed:", {k: rec[k] for k in ("ret", "exc", "data", "post")}, "clauses:", clauses)
    if clauses:
        print(f"VIOLATION property={PROP} replay={path}")
        return 1
    return 0

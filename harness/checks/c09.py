"""C09 - file checksums are correct for every content, length and chunking.

model      : spec/ChecksumMC.tla - the chunked calculation as a state machine over Checksum.tla (bit-serial reflected CRC-32 /
             CRC-32C in 16-bit limbs, CCSDS modular sum, null; catalogue check values asserted): invariant 'register after the
             last chunk = one-shot checksum of the prefix' for every content over a 3-symbol alphabet, every prefix length and
             every positive chunk length
spec->code : every point of that model (type, content, prefix, chunk) is run through the real NativeFilestore
code->spec : spec/ChecksumTrace.tla recomputes each digest from first principles and judges calculate_checksum / verify_checksum;
             seeded random byte strings (0..255, lengths 0..64, every prefix class, chunk 1..len+1, all four types); the EOF
             checksum of the source handler for files that grow while they are sent (monitor C09 of CfdpProps)
"""
from __future__ import annotations

import json
import shutil
import tempfile
from pathlib import Path

from common import MachineryError, parse_tla, run_tlc, tla_chunks
from flow import Run, replay_file
from models import json_lines

PROP = "C09"


def real_vector(fs, d: Path, v: dict) -> dict:
    from spacepackets.cfdp import ChecksumType

    from world import limbs
    types = {"CRC32": ChecksumType.CRC_32, "CRC32C": ChecksumType.CRC_32C, "MODULAR": ChecksumType.MODULAR, "NULL": ChecksumType.NULL_CHECKSUM}
    f = d / "f.bin"
    f.write_bytes(bytes(v["data"]))
    t = types[v["type"]]
    out = dict(v, exc="none", got=[0, 0], got1=[0, 0], verifyGood=False, verifyBad=False)
    try:
        got = fs.calculate_checksum(t, f, v["n"], v["chunk"])
        got1 = fs.calculate_checksum(t, f, v["n"], 1)
        out.update(got=limbs(got), got1=limbs(got1), verifyGood=bool(fs.verify_checksum(got, t, f, v["n"], v["chunk"])),
                   verifyBad=bool(fs.verify_checksum(bytes([got[0] ^ 0x80]) + got[1:], t, f, v["n"], v["chunk"])))
    except Exception as e:  # noqa: BLE001 - judged by TLC
        out["exc"] = type(e).__name__
    return out


def run(tier: str, keep: bool = False) -> int:
    r = Run(PROP, tier)
    q = r.quick
    from cfdppy.filestore import NativeFilestore
    maxlen = 4 if q else 5
    cfg = (f"SPECIFICATION Spec\nCONSTANTS\n  Alphabet = {{0, 1, 255}}\n  MaxLen = {maxlen}\n  Emit = TRUE\n"
           "INVARIANT ChunkIndependent\nINVARIANT EmitPoint\nCHECK_DEADLOCK FALSE\n")
    (r.wd / "ChecksumMC.cfg").write_text(cfg)
    mc = run_tlc("ChecksumMC", str(r.wd / "ChecksumMC.cfg"), wd=r.wd, workers=16, timeout=1800)
    if mc.violated:
        r.model_violated.append("ChecksumMC:" + str(mc.violated))
    elif not mc.completed:
        raise MachineryError("ChecksumMC did not complete: " + mc.out[-1500:])
    r.states += mc.distinct
    r.transitions += mc.generated
    r.models.append(dict(name="ChecksumMC", states=mc.distinct, transitions=mc.generated, wall_s=round(mc.wall, 1), constants=dict(MaxLen=maxlen)))
    pts = json_lines(mc.out, "VEC")
    vecs = [dict(id=i + 1, type=p["type"], data=p["data"], n=p["n"], chunk=p["chunk"]) for i, p in enumerate(pts)]
    n_model = len(vecs)
    # the same contents with the modular and null types (whole file and prefixes), and seeded random byte strings
    rng = r.rng
    for p in rng.sample(pts, min(len(pts), 400 if q else 4000)):
        for t in ("MODULAR", "NULL"):
            vecs.append(dict(id=len(vecs) + 1, type=t, data=p["data"], n=p["n"], chunk=p["chunk"]))
    for _ in range(1500 if q else 20000):
        ln = rng.choice([0, 1, 2, 3, 4, 5, 7, 8, 9, 15, 16, 17, 31, 33, 64, rng.randint(0, 64)])
        data = [rng.randrange(256) for _ in range(ln)]
        n = rng.choice([0, ln, ln, max(ln - 1, 0), rng.randint(0, ln)])
        vecs.append(dict(id=len(vecs) + 1, type=rng.choice(["CRC32", "CRC32C", "MODULAR", "NULL"]), data=data, n=n,
                         chunk=rng.choice([1, 2, 3, 4, 5, 8, max(n, 1), n + 1, 4096])))
    d = Path(tempfile.mkdtemp(prefix="cfdpv_c09_"))
    try:
        fs = NativeFilestore()
        recs = [real_vector(fs, d, v) for v in vecs]
    finally:
        shutil.rmtree(d, ignore_errors=True)
    nshard = 16
    verdicts = {}
    from concurrent.futures import ThreadPoolExecutor

    def judge(k):
        f = r.wd / f"vecs_{k}.json"
        f.write_text(json.dumps(recs[k::nshard]))
        return run_tlc("ChecksumTrace", "ChecksumTrace.cfg", wd=r.wd, workers=1, env={"TRACE_FILE": str(f)}, timeout=1800, stack="16m")
    with ThreadPoolExecutor(max_workers=nshard) as ex:
        for res in ex.map(judge, range(nshard)):
            for ch in tla_chunks(res.out, "VERDICT"):
                _, vid, clauses = parse_tla(ch)
                verdicts[vid] = clauses
    if len(verdicts) != len(recs):
        raise MachineryError(f"{len(verdicts)} verdicts for {len(recs)} checksum vectors")
    nhit = 0
    for v in recs:
        for c in verdicts[v["id"]]:
            nhit += 1
            r.out.monitor_hit(dict(clause=c, type=v["type"], n=v["n"], chunk=v["chunk"], len=len(v["data"]), exc=v["exc"]),
                              dict(kind="checksum", vector=v), f"v{v['id']}")
    # protocol side: the EOF checksum covers the bytes sent, also when the file grows meanwhile
    r.driver("src_random", 400 if q else 6000, ["C09", "C10"], leave=0.0)
    r.driver("src_nominal", 200 if q else 3000, ["C09", "C07"])
    r.judge()
    return r.finish(extra=dict(checksum_vectors=len(recs), model_points_replayed=n_model, vector_monitor_hits=nhit,
                               distinct_nontrivial=len({(v["type"], len(v["data"]), v["n"], v["chunk"]) for v in recs})),
                    assumptions=["for the modular type a true prefix is not judged (the statement demands the modular checksum 'for the "
                                 "modular type'; the library's always covers the whole file: observation F17)",
                                 "chunk length 0 is outside the statement ('every positive chunk length')"], keep=keep)


def replay(path: str) -> int:
    obj = json.loads(Path(path).read_text())
    if obj["trace"].get("kind") != "checksum":
        return replay_file(PROP, path)
    from cfdppy.filestore import NativeFilestore
    from common import workdir
    d = Path(tempfile.mkdtemp(prefix="cfdpv_c09_"))
    try:
        rec = real_vector(NativeFilestore(), d, {k: obj["trace"]["vector"][k] for k in ("id", "type", "data", "n", "chunk")})
    finally:
        shutil.rmtree(d, ignore_errors=True)
    wd = workdir(PROP + "_replay")
    f = wd / "v.json"
    f.write_text(json.dumps([rec]))
    res = run_tlc("ChecksumTrace", "ChecksumTrace.cfg", wd=wd, workers=1, env={"TRACE_FILE": str(f)}, stack="16m")
    ch = tla_chunks(res.out, "VERDICT")
    clauses = parse_tla(ch[0])[2] if ch else ["no-verdict"]
    shutil.rmtree(wd, ignore_errors=True)
    print("clauses:", clauses)
    if clauses:
        print(f"VIOLATION property={PROP} replay={path}")
        return 1
    return 0

"""C11 - transactions are isolated from earlier transactions and other handler instances.

model      : spec/Cfdp.tla with several put requests on the same handler records (cfg.more): whatever faults, duplications and
             cancellations by either user hit the earlier transactions, a later transaction the environment leaves alone ends
             like one on fresh handlers (invariant LastTxnGood), and C01 holds throughout
spec->code : (a) the multi-transaction schedules TLC enumerates are executed on ONE pair of real handler objects;
             (b) differential drivers: a transaction after sibling handlers with other header widths ran in the same
             process vs the same transaction in a pristine interpreter; a transaction T after a random history (completed, cancelled by either user, faulted to
             the limits, cut off and abandoned, reset mid-way; different modes / closure per transaction), optionally next to
             busy sibling handler instances, and the same T on freshly constructed handlers
code->spec : conformance of every execution (the transducers carry all state a handler keeps across transactions) + monitor C11:
             the two executions of T agree event by event in PDUs, indications, callbacks, exceptions, public state and files
"""
from flow import Run, replay_file

PROP = "C11"


def run(tier: str, keep: bool = False) -> int:
    r = Run(PROP, tier)
    q = r.quick
    fam = ('Numbered({ [Base(2) EXCEPT !.mode = m, !.closure = c, !.file = FileOf(n), !.immNak = i, '
           '!.more = << [putMode |-> pm, putClosure |-> "none", gap |-> 0] >>] : m \\in {"ACK", "UNACK"}, c \\in BOOLEAN, '
           'pm \\in {"ACK", "UNACK"}, n \\in %s, i \\in %s })' % ("{2}" if q else "{0, 2}", "{TRUE}" if q else "BOOLEAN"))
    r.model("history", fam, K=2 if not q else 1, faults=["drop", "dup"], cancels=["S", "D"], invariants=["C01", "LastTxnGood"], timeout=2400)
    three = ('Numbered({ [Base(2) EXCEPT !.mode = m, !.file = FileOf(1), !.more = << [putMode |-> "UNACK", putClosure |-> "true", gap |-> 0], '
             '[putMode |-> "ACK", putClosure |-> "none", gap |-> 5000] >>] : m \\in {"ACK", "UNACK"} })')
    r.model("three", three, K=1, faults=["drop"], cancels=["S"], invariants=["C01", "LastTxnGood"], timeout=1500)
    r.schedules("history", fam, ["C01", "C10"], K=1, faults=["drop", "dup"], cancels=["S", "D"], limit=500 if q else 5000, maxhist=200)
    r.driver("isolation", 400 if q else 6000, ["C11"])
    r.driver("isolation_process", 60 if q else 600, ["C11"])
    r.judge()
    return r.finish(assumptions=["the fresh run gets the provider value and the destination file the reused run had when T started, so "
                                 "that sequence numbers and files are comparable without renaming",
                                 "the file_size property of a handler that has no transaction (0 when fresh, None after a reset) is not "
                                 "compared"], keep=keep)


def replay(path: str) -> int:
    import json
    from pathlib import Path
    obj = json.loads(Path(path).read_text())
    print("C11 replays re-run the differential driver with the recorded seed is not possible from the trace alone; "
          "re-judging the recorded pair of executions")
    return replay_file(PROP, path) if "ev2" not in obj["trace"] else _rejudge(obj["trace"])


def _rejudge(t) -> int:
    import shutil

    import tracecheck
    from common import workdir
    wd = workdir(PROP + "_replay")
    t = dict(t, tid=1)
    v = tracecheck.validate([t], wd)[1]
    hits = [x for x in v["viol"] if x["prop"] == PROP]
    shutil.rmtree(wd, ignore_errors=True)
    print(f"monitor hits: {hits[:3]}")
    if hits:
        print(f"VIOLATION property={PROP} replay=recorded")
        return 1
    return 0

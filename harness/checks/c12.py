"""C12 - cancellation takes effect immediately and is signalled correctly.

model      : spec/Solo.tla on both sides with cancel requests (right and wrong transaction id) at every step, EOF (cancel) at
             every destination step, disposition on / off: the C12 monitor is an invariant of every input sequence; the closed
             model enumerates every point at which either user cancels a running transfer
spec->code : sequences and schedules executed on the real handlers (CRC-32, CRC-32C, NULL checksums)
code->spec : conformance + monitor C12 (return value; EOF (cancel) size and prefix checksum by the bit-serial TLA+ CRC; no new
             file data; Transaction-Finished / Finished PDU condition and fault location; deletion iff configured and incomplete)
"""
from flow import Run, replay_file

PROP = "C12"


def run(tier: str, keep: bool = False) -> int:
    r = Run(PROP, tier)
    q = r.quick
    props = ["C12", "C10", "C15"]
    famS = ('Numbered({ [SoloBase(2, sl, n) EXCEPT !.mode = m, !.closure = c, !.chk = k] : sl \\in {1, 2}, n \\in {0, 1, 3}, '
            'm \\in {"ACK", "UNACK"}, c \\in BOOLEAN, k \\in {"CRC32", "CRC32C", "NULL"} })')
    r.solo("srccancel", "S", famS, ["poll", "cancel", "cancelwrong", "ack", "nak"], 5, props, pre=[["put"]],
           limit=6000 if q else 60000)
    r.solo("srcmdonly", "S", 'Numbered({ [SoloBase(2, 1, 0) EXCEPT !.mdOnly = TRUE, !.mode = m, !.closure = c] : m \\in {"ACK", "UNACK"}, '
                             'c \\in BOOLEAN })', ["poll", "cancel", "put"], 4, props, pre=[["put"]])
    famD = ('Numbered({ [SoloBase(2, 1, 3) EXCEPT !.mode = m, !.closure = c, !.disp = d, !.dstShape = sh, !.dstOld = <<9>>] : '
            'm \\in {"ACK", "UNACK"}, c \\in BOOLEAN, d \\in BOOLEAN, sh \\in {"file", "existing"} })')
    r.solo("dstcancel", "D", famD, ["fd", "eof", "eofcancel", "cancel", "cancelwrong", "poll", "ack"], 5 if q else 6, props, pre=[["md"]],
           limit=6000 if q else 60000)
    pair = 'FamAll(3, {0, 1, 3}, {"CRC32", "NULL"})' if q else 'FamAll(3, {0, 1, 3, 4}, {"CRC32", "CRC32C", "NULL"})'
    r.schedules("cancelpoints", pair, props, K=0, cancels=["S", "D"], limit=900 if q else None)
    r.schedules("cancelK1", "FamAck(3, {3})", props, K=1, faults=["drop"], cancels=["S"], limit=400 if q else None)
    r.driver("src_random", 300 if q else 5000, props, leave=0.0)
    r.driver("dst_random", 300 if q else 5000, props, leave=0.0)
    r.judge()
    return r.finish(assumptions=["the modular checksum is left out of the prefix-checksum clause unless the prefix is the whole file "
                                 "(the library's modular checksum always covers the whole file: observation F17)",
                                 "a second cancel request while the EOF (cancel) is in flight abandons the transaction (CFDP 4.11.2.2.3)"], keep=keep)


def replay(path: str) -> int:
    return replay_file(PROP, path)

"""C08 - retransmissions deliver exactly the requested data and nothing else.

model      : spec/Solo.tla, source side: NAKs (metadata request, valid ranges, several requests, zero-length, inverted, beyond
             the data sent, beyond the file) injected at every sender step between None-calls, ACK (EOF), Finished; the C08
             monitor is an invariant of every input sequence over SrcCore
spec->code : the sequences replayed into a real SourceHandler (all of them in thorough, a seeded sample in quick)
code->spec : conformance + monitor C08 on the observed values; seeded random adversarial source runs; fault schedules of the
             closed model (real NAKs produced by a real destination)
"""
from flow import Run, replay_file

PROP = "C08"


def run(tier: str, keep: bool = False) -> int:
    r = Run(PROP, tier)
    q = r.quick
    props = ["C08", "C10", "C19"]
    fam = 'Numbered({ [SoloBase(2, sl, n) EXCEPT !.closure = c] : sl \\in {1, 2}, n \\in {3, 4}, c \\in BOOLEAN })'
    r.solo("nak", "S", fam, ["poll", "nak", "nakodd", "ack"], 5 if q else 6, props, pre=[["put"], ["poll"]], limit=6000 if q else 60000)
    r.solo("nakfin", "S", 'Numbered({ SoloBase(2, 1, 2), [SoloBase(2, 1, 2) EXCEPT !.mode = "UNACK"] })',
           ["poll", "nak", "nakodd", "ack", "fin", "tick"], 6 if q else 8, props, pre=[["put"], ["poll"], ["poll"]], limit=4000 if q else 60000)
    # a NAK while the EOF awaits its ACK, between expiries of the positive ACK timer: the retry procedure goes on undisturbed
    # (monitor C04 judges the EOF re-sends and the limit from the clock, monitor C08 the retry count across the NAK call)
    r.solo("nakTimer", "S", 'Numbered({ [SoloBase(l, 1, 2) EXCEPT !.ackInt = 700] : l \\in {2, 3} })', ["tick", "tick400", "poll", "nak"],
           10 if q else 11, props + ["C04"], pre=[["put"], ["poll"], ["poll"], ["poll"], ["poll"]], limit=4000 if q else 60000)
    r.solo("twonaks", "S", 'Numbered({ SoloBase(3, 1, 2), [SoloBase(3, 1, 2) EXCEPT !.closure = TRUE] })', ["poll", "nak", "ack", "fin"],
           9 if q else 10, props, pre=[["put"], ["poll"], ["nak"], ["poll"], ["poll"], ["poll"]])
    r.driver("src_random", 600 if q else 8000, props, leave=0.0)
    r.schedules("pairK1", "FamAck(3, {1, 3})", ["C03", "C08", "C10"], K=1, faults=["drop", "swap"])
    r.judge()
    return r.finish(assumptions=["one trailing original File Data PDU at the current send offset would be tolerated in a NAK-carrying "
                                 "call (weaker reading); any tiling of a requested range within the segment length is accepted"], keep=keep)


def replay(path: str) -> int:
    return replay_file(PROP, path)

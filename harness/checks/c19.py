"""C19 - put requests are admitted, parameterised and identified correctly.

model      : spec/Solo.tla, source side: valid / premature / missing-file / unknown-destination requests with every
             mode x closure option, interleaved with running transactions; the C19 monitor is an invariant of every sequence
spec->code : sequences replayed into a real SourceHandler
code->spec : conformance + monitor C19 (admission, mode / closure truth table, segment length = min(configured, derived by the
             independent PduLayout arithmetic), consecutive provider values); lone-source nominal runs with several
             transactions per handler; two handlers sharing one provider (differential driver)
"""
from flow import Run, replay_file

PROP = "C19"


def run(tier: str, keep: bool = False) -> int:
    r = Run(PROP, tier)
    q = r.quick
    props = ["C19", "C10", "C07"]
    fam = ('Numbered({ [SoloBase(2, sl, n) EXCEPT !.mode = m, !.closure = c, !.putMode = pm, !.putClosure = pc, !.seq0 = s0, !.seqW = 1] : '
           'sl \\in {1, 2}, n \\in {0, 3}, m \\in {"ACK", "UNACK"}, c \\in BOOLEAN, pm \\in {"none", "ACK", "UNACK"}, '
           'pc \\in {"none", "true", "false"}, s0 \\in {0, 255} })')
    r.solo("puts", "S", fam, ["put", "putodd", "poll"], 4, ["C19", "C10"], limit=6000 if q else 60000)
    r.solo("busy", "S", 'Numbered({ SoloBase(2, 1, 2), [SoloBase(2, 1, 2) EXCEPT !.mode = "UNACK", !.closure = TRUE] })',
           ["put", "putodd", "poll", "ack", "fin", "cancel"], 5 if q else 6, ["C19", "C10"], pre=[["put"]], limit=4000 if q else 60000)
    r.driver("src_nominal", 400 if q else 5000, props)
    r.driver("src_random", 300 if q else 4000, ["C19", "C10"], leave=0.0)
    r.driver("shared_provider", 100 if q else 1500, ["C19"])
    r.judge()
    return r.finish(keep=keep)


def replay(path: str) -> int:
    return replay_file(PROP, path)

"""C01 - a reported successful delivery implies a byte-identical file.

model      : spec/Cfdp.tla, all modes / closure / NAK modes, CRC-32 and CRC-32C (bit-serial in Checksum.tla) with loss,
             duplication, reordering, delay, payload corruption and rejected filestore writes; NULL and modular checksums with
             loss / duplication / reordering in acknowledged mode; invariant C01 (success => identical file or genuine
             collision) in every reachable state
spec->code : all schedules with <= 1 (quick) / <= 2 (thorough) faults under canonical pacing + simulated free pacing
code->spec : conformance with the transducers + monitor C01 on the observed Finished indications / PDUs and sandbox snapshots
"""
from flow import Run, replay_file

PROP = "C01"
ALL = ["drop", "dup", "swap", "hold", "flip", "wrej"]
LINK = ["drop", "dup", "swap", "hold"]


def run(tier: str, keep: bool = False) -> int:
    r = Run(PROP, tier)
    q = r.quick
    crc = 'FamAll(3, {0, 1, 3}, {"CRC32", "CRC32C"})' if not q else 'FamAll(3, {0, 1, 3}, {"CRC32"})'
    weak = 'FamAck(3, {1, 3}) \\cup {}' if q else 'FamAll(3, {1, 2, 3}, {"NULL", "MODULAR"})'
    weakfam = 'FamChk(3, {1, 3}, {"NULL", "MODULAR"})'
    r.model("crcK1", crc, K=1, faults=ALL, invariants=["C01"])
    r.model("crcK2", 'FamAll(3, {1, 3}, {"CRC32"})' if q else crc, K=2, faults=ALL, invariants=["C01"], timeout=1500)
    r.model("weakK2", weakfam, K=2, faults=LINK, invariants=["C01"])
    r.model("crcFreeK1", 'FamAll(3, {2}, {"CRC32"})', K=1, faults=ALL + ["delay"], pacing="free", invariants=["C01"], timeout=1500)
    if not q:
        r.model("crcK3", 'FamAll(4, {1, 3}, {"CRC32"})', K=3, faults=ALL, invariants=["C01"], timeout=2400)
    # the receiver alone under adversarial PDUs (data beyond the file, wrong checksums, EOF before the data, rejected writes;
    # not: an EOF that consistently describes a shorter file - a lying sender is not among the faults C01 lists)
    # with fault-handler tables that ignore the size / checksum faults: whatever arrives, success is never reported for a file
    # that differs from the source file (monitor C01 as TLC invariant of every input sequence; CRC-32: no collisions in range)
    famT = ('Numbered({ [SoloBase(2, 1, 1) EXCEPT !.mode = m, !.closure = TRUE, !.fhD = [FhDefault EXCEPT !.FILE_SIZE_ERROR = a, '
            '!.FILE_CHECKSUM_FAILURE = b]] : m \\in {"ACK", "UNACK"}, a \\in {"ignore", "cancel"}, b \\in {"ignore", "cancel"} })')
    r.solo("receiver", "D", famT, ["fd", "fdodd", "wrej", "eof", "eofbad", "tick", "poll"], 6 if q else 7, ["C01", "C10"], pre=[["md"]],
           limit=5000 if q else 60000)
    props = ["C01", "C06", "C10", "C15"]
    r.schedules("schedK1", 'FamAll(3, {0, 1, 3}, {"CRC32", "CRC32C"})', props, K=1, faults=ALL)
    r.schedules("schedK2", 'FamAll(3, {1, 3}, {"CRC32"})', props, K=2, faults=["drop", "dup", "swap", "flip", "wrej"], limit=700 if q else None)
    r.schedules("weakK2", weakfam, props, K=2, faults=["drop", "dup", "swap"], limit=300 if q else 20000)
    if not q:
        r.schedules("holdK2", '{c \\in FamAll(3, {3}, {"CRC32"}) : ~c.closure}', props, K=2, faults=["hold", "flip", "drop"], limit=30000, timeout=2400)
    r.schedules("simFree", 'FamAll(3, {2, 4}, {"CRC32", "CRC32C"})', props, K=3, faults=ALL + ["delay"], pacing="free",
                ticks=[400, 1000], simulate=dict(num=300 if q else 6000, depth=100), maxhist=100, workers=4)
    r.judge()
    return r.finish(assumptions=["payload corruption = one flipped bit in the first byte of a File Data PDU in flight (delivered "
                                 "past the PDU CRC-16, the worst case); write rejection = PermissionError from write_data",
                                 "model bounds: 1-byte segments, files of 0..3 segments, K <= 3"], keep=keep)


def replay(path: str) -> int:
    return replay_file(PROP, path)

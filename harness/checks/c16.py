"""C16 - all file access goes through the user-supplied virtual filestore.

model      : the closed model spec/Cfdp.tla holds every file effect in the model variables srcFs / dstFs (there is no other file
             state), so it is filestore-implementation independent by construction; invariants C01 / DoneIsGood as in C02 / C03
spec->code : every schedule (nominal over the configuration families, K <= 1 faults, cancel points) is executed TWICE on the real
             handlers: on the sandboxed NativeFilestore and on a purely in-memory VirtualFilestore whose paths do not exist on
             the host
code->spec : both executions are validated against the transducers; the C16 monitor compares them event by event (PDUs,
             indications, callbacks, exceptions, return values, public state, file tree), demands that no host path of the pretended
             sandbox is opened during a handler call (sys audit hook) and that the host is untouched afterwards
"""
from flow import Run, replay_file

PROP = "C16"


def run(tier: str, keep: bool = False) -> int:
    r = Run(PROP, tier)
    q = r.quick
    props = ["C16", "C02", "C10"]
    nominal = 'FamAll(2, {0, 1, 3}, {"CRC32", "CRC32C", "MODULAR", "NULL"})'
    r.model("nominal", nominal, K=0, invariants=["NoExc", "NoFlt", "C01", "DoneIsGood"])
    r.schedules("nominal", nominal, props, K=0, twin=True)
    shapes = ('Numbered({ [Base(2) EXCEPT !.mode = m, !.dstShape = sh, !.dstOld = <<9, 9>>, !.file = FileOf(3), !.segLen = 2] : '
              'm \\in {"ACK", "UNACK"}, sh \\in {"file", "existing", "dir", "direxisting"} })')
    r.schedules("shapes", shapes, props, K=0, twin=True)
    r.schedules("mdonly", "MdOnly(2)", props, K=0, twin=True)
    fam = "FamAck(3, {1, 3})"
    r.model("faultK1", fam, K=1, faults=["drop", "dup", "swap", "flip", "wrej"], invariants=["C01"])
    r.schedules("faultK1", 'FamAll(3, {1, 3}, {"CRC32"})', ["C16", "C10"], K=1, faults=["drop", "dup", "swap", "flip", "wrej"], twin=True,
                limit=400 if q else None)
    r.schedules("cancel", 'FamAll(3, {3}, {"CRC32", "NULL"})', ["C16", "C12", "C10"], K=0, cancels=["S", "D"], twin=True,
                limit=300 if q else None)
    r.schedules("cancelDisp", 'Numbered({ [c EXCEPT !.disp = TRUE] : c \\in FamAll(3, {3}, {"CRC32"}) })', ["C16", "C12", "C10"], K=0,
                cancels=["S", "D"], twin=True, limit=300 if q else None)
    r.schedules("multi", 'Numbered({ [Base(2) EXCEPT !.file = FileOf(2), !.more = << [putMode |-> "UNACK", putClosure |-> "true", gap |-> 0] >>] })',
                props, K=0, twin=True)
    r.judge()
    return r.finish(assumptions=["the in-memory filestore of the harness implements the VirtualFilestore interface (its checksum code is "
                                 "independent of the library's)", "Path.exists()-style host checks have no audit event; they show up as a "
                                 "behavioural difference between the two runs instead"], keep=keep)


def replay(path: str) -> int:
    return replay_file(PROP, path)

"""C05 - destination file equals the write-model of the accepted File Data PDUs.

model      : spec/Solo.tla, destination side: Metadata (file / existing file / directory targets, metadata-only), File Data at
             grid and odd offsets (overlaps, duplicates, zero length, beyond EOF), EOF (right / wrong size and checksum,
             cancel), ACK (Finished), cancel requests, polls, in both modes; the C05 monitor - an independent 20-line write
             model over the whole sandbox tree - is an invariant of every input sequence over DstCore
spec->code : the sequences replayed into a real DestHandler on a sandboxed NativeFilestore
code->spec : conformance (fs clause: predicted tree = observed tree) + monitor C05 on the observed tree snapshots; seeded random
             and grid-driven destination runs; two-entity fault schedules
"""
from flow import Run, replay_file
from world import IND_DEFAULT

PROP = "C05"


def run(tier: str, keep: bool = False) -> int:
    r = Run(PROP, tier)
    q = r.quick
    props = ["C05", "C10"]
    fam = ('Numbered({ [SoloBase(2, 1, 3) EXCEPT !.mode = m, !.dstShape = sh, !.dstOld = <<9, 9, 9, 9, 9>>, !.disp = d, !.chk = k] : '
           'm \\in {"ACK", "UNACK"}, sh \\in {"file", "existing", "dir", "direxisting"}, d \\in BOOLEAN, k \\in %s })'
           % ('{"CRC32"}' if q else '{"CRC32", "NULL"}'))
    r.solo("writes", "D", fam, ["fd", "fdodd", "eof", "eofodd", "eofcancel", "poll", "cancel"], 5, props, pre=[["md"]],
           limit=6000 if q else 60000)
    r.solo("nomd", "D", 'Numbered({ [SoloBase(2, 1, 2) EXCEPT !.mode = m, !.dstShape = sh, !.dstOld = <<9, 9, 9>>] : m \\in {"ACK", "UNACK"}, '
                        'sh \\in {"file", "existing"} })', ["md", "mdonly", "fd", "fdodd", "eof", "poll", "ack"], 4 if q else 5, props,
           limit=4000 if q else 60000)
    # a filestore that refuses to create / truncate the destination file or to write: nothing may appear anywhere
    r.solo("rejected", "D", 'Numbered({ [SoloBase(2, 1, 2) EXCEPT !.mode = m, !.dstShape = sh, !.dstOld = <<9, 9, 9>>, !.fhD = [FhDefault EXCEPT '
                            '!.FILESTORE_REJECTION = f]] : m \\in {"ACK", "UNACK"}, sh \\in {"file", "existing", "dir"}, f \\in {"ignore", "cancel"} })',
           ["md", "mdwrej", "fd", "wrej", "eof", "poll"], 4 if q else 5, props, limit=4000 if q else 60000)
    # cancel requests and late PDUs after the file is complete (Finished sent, its ACK outstanding): the file stays
    r.solo("late", "D", 'Numbered({ [SoloBase(1, 1, 2) EXCEPT !.dstShape = sh, !.dstOld = <<9, 9, 9>>, !.disp = d] : '
                        'sh \\in {"file", "existing"}, d \\in BOOLEAN })', ["poll", "cancel", "ack", "tick", "fd", "eof", "eofcancel"],
           7 if q else 8, props, pre=[["md"], ["fd"], ["eof"]], limit=4000 if q else 60000)
    r.driver("dst_random", 500 if q else 8000, props, indD=IND_DEFAULT)
    r.driver("dst_grid", 400 if q else 6000, ["C05", "C06", "C10"])
    r.schedules("pairK1", 'FamAll(3, {1, 3}, {"CRC32"})', ["C01", "C05", "C10"], K=1, faults=["drop", "dup", "swap", "flip"])
    r.judge()
    return r.finish(assumptions=["a File Data PDU counts as accepted iff the call that received it raised nothing, issued the "
                                 "File-Segment-Recv indication for it and the write was not rejected by the environment",
                                 "the whole sandbox tree of the destination entity is compared after every call"], keep=keep)


def replay(path: str) -> int:
    return replay_file(PROP, path)

"""C02 - every transfer over a fault-free link completes successfully in every mode.

model      : spec/Cfdp.tla with K = 0 over a product of configurations (mode, closure, checksum type, PDU CRC flag, id and
             sequence-number widths, NAK mode, segment length, maximum packet length around the break points, file size
             relative to the segment length, destination shape, metadata-only); invariants NoExc, NoFlt, OneFin, C01,
             DoneIsGood and liveness Completes, canonical and free pacing
spec->code : the canonical run and simulated free pacings of every configuration are executed on the real handlers
code->spec : conformance with the transducers + monitor C02 (and C01, C07, C10, C15, C19) on the observed values
"""
import itertools

from flow import Run, replay_file
from models import cfgs_tla

PROP = "C02"


def more(rng):
    """Further put requests on the same handlers (each with its own mode / closure, after a pause)."""
    return [dict(putMode=rng.choice(["none", "ACK", "UNACK"]), putClosure=rng.choice(["none", "true", "false"]),
                 gap=rng.choice([0, 700, 5000])) for _ in range(rng.choice([0, 0, 1, 1, 2]))]


def product(rng, n: int | None):
    out = []
    for mode, closure, chk, crc, w, dw, qw, imm, segsel, pktsel, shape in itertools.product(
            ["ACK", "UNACK"], [False, True], ["CRC32", "CRC32C", "NULL", "MODULAR"], [False, True], [1, 2, 4, 8], [0, 1],
            [1, 2, 4], [True, False], ["cfg1", "cfg3", "derived", "none"], ["tight", "mid", "big"],
            ["file", "existing", "dir", "direxisting"]):
        out.append((mode, closure, chk, crc, w, dw, qw, imm, segsel, pktsel, shape))
    if n is not None and n < len(out):
        out = rng.sample(out, n)
    cfgs = []
    for mode, closure, chk, crc, w, dwsel, qw, imm, segsel, pktsel, shape in out:
        dw = w if dwsel == 0 else (1 if w > 1 else 2)
        hdr = 4 + 2 * max(w, dw) + qw
        base = hdr + 4 + (2 if crc else 0)
        max_pkt = dict(tight=base + 8, mid=base + 11, big=512)[pktsel]
        derived = max_pkt - base
        seg_cfg = dict(cfg1=1, cfg3=3, derived=64, none=0)[segsel]
        eff = derived if seg_cfg == 0 or seg_cfg >= derived else seg_cfg
        eff = min(eff, 16)   # sizes relative to the effective segment length (big packets: a few segments of <= 16 would be huge)
        if seg_cfg in (0, 64) and derived > 16:
            seg_cfg = 16 if seg_cfg == 64 else 0
            if seg_cfg == 0:
                eff = min(derived, 16)
                max_pkt = base + eff
        size = rng.choice([0, 1, max(eff - 1, 0), eff, eff + 1, 2 * eff, 2 * eff + 1])
        sid = rng.choice([1, 200]) if w == 1 else rng.choice([1, 300])
        cfgs.append(dict(mode=mode, closure=closure, chk=chk, crc=crc, sIdW=w, dIdW=dw, sId=sid, dId=2, seqW=qw,
                         seq0=rng.choice([0, 7, 255 if qw == 1 else 4000]), immNak=imm, segLen=seg_cfg, maxPkt=max_pkt,
                         file=[rng.randrange(256) for _ in range(size)], dstShape=shape,
                         dstOld=[rng.randrange(256) for _ in range(rng.choice([0, 3, 40]))] if "existing" in shape else [],
                         putMode=rng.choice(["none", "none", "ACK", "UNACK"]), putClosure=rng.choice(["none", "none", "true", "false"]),
                         more=more(rng)))
    n_md = 8 if n is not None else 32
    for _ in range(n_md):
        cfgs.append(dict(mode=rng.choice(["ACK", "UNACK"]), closure=rng.choice([True, False]), mdOnly=True, file=[],
                         crc=rng.choice([True, False]), sIdW=rng.choice([1, 2, 4]), seqW=rng.choice([1, 2, 4]),
                         msgs=rng.choice([[], [[1, 2, 3]], [[99, 102, 100, 112, 0, 1], [7]]]), more=more(rng)))
    return cfgs


def run(tier: str, keep: bool = False) -> int:
    r = Run(PROP, tier)
    r.exhaustive = False   # the configuration product is sampled
    cfgs = product(r.rng, 240 if r.quick else 6000)
    props = ["C01", "C02", "C07", "C10", "C15", "C19"]
    inv = ["NoExc", "NoFlt", "OneFin", "C01", "DoneIsGood"]
    chunk = 240 if r.quick else 1000
    for i in range(0, len(cfgs), chunk):
        fam = cfgs_tla(cfgs[i:i + chunk])
        r.model(f"nominal{i}", fam, K=0, invariants=inv, properties=["Completes"], fair=True, timeout=1500)
        r.schedules(f"canon{i}", fam, props, K=0, maxhist=400)
    fam = cfgs_tla(cfgs[:60 if r.quick else 400])
    r.model("freepacing", fam, K=0, pacing="free", invariants=inv, timeout=1500)
    r.schedules("simfree", fam, props, K=0, pacing="free", simulate=dict(num=240 if r.quick else 4000, depth=200),
                maxhist=200, workers=4)
    r.judge()
    return r.finish(assumptions=["fault-free link: every PDU delivered once, in order; time passes only while no PDU is in flight",
                                 "quick samples the configuration product by VERIF_SEED; thorough samples 6000 of its 147456 points "
                                 "with a random file size class each"], keep=keep)


def replay(path: str) -> int:
    return replay_file(PROP, path)

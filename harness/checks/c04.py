"""C04 - retry limits are honoured exactly; a silent peer cannot hang a transaction.

model      : (a) spec/Solo.tla with clock jumps of 400 / 1000 ms, polls and inbound PDUs after the point where each of the three
             timer-driven procedures starts (EOF awaiting ACK, Finished awaiting ACK, deferred NAK), limits 1..3: the C04
             observers (expiries counted from the clock and the emitted PDUs only) are invariants of every input sequence;
             (b) the closed model with links that fall silent for good at any point: liveness RestOrWait (both handlers come to
             rest, except in the two waits the statement leaves unbounded) under fairness of calls and clock
spec->code : sequences and silent-peer schedules executed on the real handlers with the virtual clock
code->spec : conformance (the three counters are compared after every call) + monitor C04 on the observed values
"""
from flow import Run, replay_file

PROP = "C04"


def run(tier: str, keep: bool = False) -> int:
    r = Run(PROP, tier)
    q = r.quick
    props = ["C04", "C10", "C14"]
    lims = "{1, 2, 3}"
    famD = (f'Numbered({{ [SoloBase(l, 1, 2) EXCEPT !.closure = c, !.ackInt = 700, !.nakInt = 1300, !.immNak = i] : l \\in {lims}, '
            f'c \\in BOOLEAN, i \\in BOOLEAN }})')
    r.solo("finack", "D", famD, ["tick", "tick400", "poll", "ack"], 10 if q else 12, props,
           pre=[["md"], ["fd"], ["fd"], ["eof"], ["poll"]], limit=8000 if q else 60000)
    r.solo("deferred", "D", famD, ["tick", "tick400", "poll", "fd"], 9 if q else 10, props,
           pre=[["md", "fd"], ["fd"], ["eof"], ["poll"]], limit=8000 if q else 60000)
    famS = (f'Numbered({{ [SoloBase(l, 1, 1) EXCEPT !.closure = c, !.ackInt = 700] : l \\in {lims}, c \\in BOOLEAN }})')
    r.solo("eofack", "S", famS, ["tick", "tick400", "poll", "nak", "cancel"], 8 if q else 9, props,
           pre=[["put"], ["poll"], ["poll"], ["poll"]], limit=8000 if q else 60000)
    pair = 'FamAll(2, {1, 3}, {"CRC32"})' if q else 'FamAll(3, {0, 1, 3}, {"CRC32"})'
    r.model("silentK0", pair, K=0, cuts=["sd", "ds"], properties=["RestOrWait"], fair=True)
    r.model("silentK1", "FamAck(2, {1, 3})", K=1, faults=["drop"], cuts=["sd", "ds"], properties=["RestOrWait"], fair=True)
    r.schedules("cuts", pair, props, K=0, cuts=["sd", "ds"])
    r.schedules("cutsK1", "FamAck(2, {1, 3})", props, K=1, faults=["drop"], cuts=["sd", "ds"], limit=800 if q else None)
    r.schedules("faultsK2", "FamAck(3, {1, 3})", props, K=2, faults=["drop", "dup", "swap"], limit=500 if q else None)
    r.schedules("simFree", "FamAck(3, {2, 3})", props, K=2, faults=["drop", "dup", "swap", "delay"], pacing="free", ticks=[400, 1000],
                simulate=dict(num=300 if q else 6000, depth=100), maxhist=100, workers=4)
    r.driver("dst_grid", 300 if q else 5000, props)
    r.driver("dst_random", 300 if q else 5000, props, leave=0.0)
    r.driver("src_random", 300 if q else 5000, props, leave=0.0)
    r.judge()
    return r.finish(assumptions=["an expiry is a call at which now - (last emission or restart) >= the configured interval; 'never earlier' "
                                 "is judged against the reading with the fewest restarts, 'never later' against the one with the most",
                                 "the two waits the statement leaves unbounded are exempt: sender awaiting Finished after its EOF was "
                                 "acknowledged, receiver awaiting file data / EOF"], keep=keep)


def replay(path: str) -> int:
    return replay_file(PROP, path)

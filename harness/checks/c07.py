"""C07 - the source emits a conformant, complete and size-bounded PDU stream.

model      : (a) spec/Solo.tla, source side, put requests and None-calls only: the C07 monitor is an invariant of every input
             sequence over SrcCore; (b) the fault-free closed model (C02 families) whose runs carry the same monitor
spec->code : every sequence / schedule executed on the real SourceHandler
code->spec : conformance (every PDU field, PduLayout's independent length arithmetic) + monitor C07 on the observed stream;
             seeded lone-source runs with larger files, all widths, packet lengths at the break points
"""
from flow import Run, replay_file

PROP = "C07"


def run(tier: str, keep: bool = False) -> int:
    r = Run(PROP, tier)
    q = r.quick
    props = ["C07", "C19", "C10"]
    fam = ('Numbered({ [SoloBase(2, sl, n) EXCEPT !.mode = m, !.closure = c, !.chk = k, !.crc = x, !.maxPkt = mp, !.putMode = pm] : '
           'sl \\in {0, 1, 2}, n \\in {0, 1, 2, 3, 5}, m \\in {"ACK", "UNACK"}, c \\in BOOLEAN, k \\in {"CRC32", "MODULAR"}, '
           'x \\in BOOLEAN, mp \\in {24, 25, 512}, pm \\in {"none", "UNACK"} })')
    r.solo("stream", "S", fam, ["poll"], 9, props, pre=[["put"]])
    r.solo("mdonly", "S", 'Numbered({ [SoloBase(2, 1, 0) EXCEPT !.mdOnly = TRUE, !.mode = m, !.closure = c, !.msgs = g] : '
                          'm \\in {"ACK", "UNACK"}, c \\in BOOLEAN, g \\in {<<>>, << <<1, 2>> >>} })', ["poll", "put"], 5, props, pre=[["put"]])
    # Metadata options of the request: filestore request, fault handler override, flow label, then the messages to the user
    XO = '<< [t |-> 0, v |-> <<0, 1, 120>>], [t |-> 4, v |-> <<83>>], [t |-> 5, v |-> <<1, 2>>] >>'
    r.solo("options", "S", 'Numbered({ [SoloBase(2, 1, n) EXCEPT !.mdOnly = o, !.mode = m, !.msgs = g, !.xopts = x, !.maxPkt = mp] : '
                           'n \\in {0, 2}, o \\in BOOLEAN, m \\in {"ACK", "UNACK"}, g \\in {<<>>, << <<1, 2>> >>}, mp \\in {24, 512}, '
                           'x \\in {<<>>, %s, SubSeq(%s, 2, 3), SubSeq(%s, 1, 1)} })' % (XO, XO, XO), ["poll"], 6, props, pre=[["put"]])
    # the ACK of the Finished PDU, also when the sender has cancelled in the meantime (its EOF carries another condition code)
    r.solo("ackfin", "S", 'Numbered({ [SoloBase(2, 1, n) EXCEPT !.closure = c] : n \\in {0, 1}, c \\in BOOLEAN })',
           ["poll", "cancel", "fin", "ack", "tick"], 6 if q else 7, props, pre=[["put"], ["poll"]])
    r.schedules("pair", 'FamAll(2, {0, 1, 3}, {"CRC32", "NULL"})', ["C02", "C07", "C10"], K=0)
    r.schedules("pairopts", '{ [c EXCEPT !.xopts = %s, !.msgs = << <<1, 2, 3>> >>] : c \\in FamAll(2, {1}, {"CRC32"}) }' % XO,
                ["C02", "C07", "C10", "C15"], K=0)
    r.driver("src_nominal", 400 if q else 6000, props)
    r.judge()
    return r.finish(assumptions=["no inbound PDUs before the EOF (the statement's scope); Metadata / NAK / Finished lengths are not "
                                 "bounded by the statement"], keep=keep)


def replay(path: str) -> int:
    return replay_file(PROP, path)

"""C03 - acknowledged mode recovers from bounded loss, duplication, delay and reordering.

model      : spec/Cfdp.tla, acknowledged-mode configuration families, fault budget K < every limit;
             invariants C01 + DoneIsGood over all schedules, liveness CompletesKf under fairness
spec->code : every schedule TLC enumerates (canonical pacing) / simulates (free pacing) is executed on the real handlers
code->spec : each execution is replayed through the transducers (conformance) and judged by the monitor C03 of CfdpProps
"""
from flow import Run, replay_file

PROP = "C03"
FAULTS = ["drop", "dup", "swap", "hold"]


def run(tier: str, keep: bool = False) -> int:
    r = Run(PROP, tier)
    q = r.quick
    sizes = "{0, 1, 3}" if q else "{0, 1, 2, 3, 4}"
    fam1, fam2 = f"FamAck(2, {sizes})", f"FamAck(3, {sizes})"       # every limit = K + 1: the weakest configuration the statement allows
    inv = ["C01", "DoneIsGood"]
    # the design: every schedule with at most K faults ends well, and does end
    r.model("canonK1", fam1, K=1, faults=FAULTS, invariants=inv, properties=["Completes"], fair=True)
    r.model("freeK1", "FamAck(2, {1, 2})", K=1, faults=FAULTS + ["delay"], pacing="free", invariants=inv, ticks=[1000])
    r.model("canonK2", fam2, K=2, faults=FAULTS, invariants=inv, properties=["Completes"], fair=True)
    r.model("freeK2", "FamAck(3, {2})", K=2, faults=FAULTS + ["delay"], pacing="free", invariants=inv, timeout=1500)
    # the two entities' positive ACK intervals differ by more than the other side's limit (the receiver's Finished timer runs
    # 7x slower than the sender's EOF timer - longer than the whole cancellation exchange of the other side - and vice versa): recovery may not depend on the intervals matching
    asym = ('Numbered({ [c EXCEPT !.ackInt = 1000, !.ackIntD = 7000] : c \\in FamAck(3, {1}) } \\cup '
            '{ [c EXCEPT !.ackInt = 7000, !.ackIntD = 1000] : c \\in FamAck(3, {1}) })')
    r.model("asymK2", asym, K=2, faults=["drop"], invariants=inv, properties=["Completes"], fair=True)
    if not q:
        r.model("freeK2b", "FamAck(3, {1, 3})", K=2, faults=FAULTS + ["delay"], pacing="free", invariants=inv, ticks=[400, 1000], timeout=2400)
        r.model("canonK3", "FamAck(4, {0, 1, 3})", K=3, faults=FAULTS, invariants=inv, timeout=2400)
    # the code: all K <= 1 schedules (quick) / K <= 2 (thorough) under canonical pacing, random pacing by simulation
    props = ["C01", "C03", "C06", "C10", "C15"]
    r.schedules("schedK1", fam1, props, K=1, faults=FAULTS, limit=1500 if q else None)
    r.schedules("schedK2", fam2, props, K=2, faults=["drop", "dup", "swap"], limit=600 if q else None)
    r.schedules("asymK2", asym, props, K=2, faults=["drop"], limit=700 if q else None)
    if not q:
        # one PDU delayed / overtaken (hold ... release) combined with a loss: all schedules of one configuration family
        r.schedules("schedK2hold", "{c \\in FamAck(3, {3}) : ~c.closure}", props, K=2, faults=["drop", "hold"], limit=40000, timeout=2400)
    r.schedules("simFree", "FamAck(3, {1, 3})" if q else "FamAck(4, {1, 3, 5})", props, K=2, faults=FAULTS + ["delay"],
                pacing="free", ticks=[400, 1000], simulate=dict(num=300 if q else 6000, depth=100), maxhist=100, workers=4)
    r.judge()
    return r.finish(assumptions=["faults: drop / duplicate / swap of the PDU delivered next, delay = time passing while PDUs are in "
                                 "flight; closed transactions are answered by the entity layer (ACK of EOF / Finished)",
                                 "model bounds: 1-byte segments, files of 0..4 segments, K <= 3, every limit = K + 1"], keep=keep)


def replay(path: str) -> int:
    return replay_file(PROP, path)

"""Developer tool: conformance of SrcCore/DstCore with the real handlers on seeded random adversarial traces.
usage: conf.py [src|dst|both] [n] [seed] [--fh]"""
import sys, random, time, json, os
from pathlib import Path
HERE = Path(__file__).resolve().parent
sys.path.insert(0, str(HERE)); sys.path.insert(0, os.environ.get("CFDP_REPO", "/repo") + "/src")
from common import workdir
import drivers, tracecheck

def main():
    which = sys.argv[1] if len(sys.argv) > 1 else "both"
    n = int(sys.argv[2]) if len(sys.argv) > 2 else 400
    sd = int(sys.argv[3]) if len(sys.argv) > 3 else 0
    fh = "--fh" in sys.argv
    rng = random.Random(sd)
    traces = []
    t0 = time.time()
    for i in range(n):
        if which in ("src", "both"):
            traces.append(drivers.drive_src_random(rng, len(traces) + 1, default_fh=not fh))
        if which in ("dst", "both"):
            traces.append(drivers.drive_dst_random(rng, len(traces) + 1, default_fh=not fh))
    t1 = time.time()
    wd = workdir("conf")
    v = tracecheck.validate(traces, wd)
    bad = [t for t in traces if v[t["tid"]]["status"] != "ok"]
    print(f"{len(traces)} traces, {sum(len(t['ev']) for t in traces)} events, record {t1-t0:.1f}s validate {time.time()-t1:.1f}s, drift {len(bad)}")
    for t in bad[:3]:
        print(tracecheck.explain_drift(t, v[t["tid"]]))
main()

"""Drivers: produce executions of the real handlers (traces) from seeds or from TLC-generated schedules."""
from __future__ import annotations

import copy
import random
from pathlib import Path

from world import (FH_CONDS, FH_DEFAULT, IND_DEFAULT, Clock, World, limbs, mkcfg, xopts_kw)

FHC = ["cancel", "ignore", "abandon"]
DECLARABLE = ["POSITIVE_ACK_LIMIT_REACHED", "NAK_LIMIT_REACHED", "CHECK_LIMIT_REACHED", "FILE_CHECKSUM_FAILURE",
              "FILE_SIZE_ERROR", "FILESTORE_REJECTION"]


def ref_checksum(kind: str, data: bytes) -> list[int]:
    """Reference checksums for building EOF PDUs in drivers (zlib / bitwise; not an oracle)."""
    import zlib
    if kind == "NULL":
        return [0, 0]
    if kind == "CRC32":
        return limbs(zlib.crc32(data).to_bytes(4, "big"))
    if kind == "CRC32C":
        c = 0xFFFFFFFF
        for b in data:
            c ^= b
            for _ in range(8):
                c = (c >> 1) ^ 0x82F63B78 if c & 1 else c >> 1
        return limbs((c ^ 0xFFFFFFFF).to_bytes(4, "big"))
    s = 0
    for i in range(0, len(data), 4):
        s += int.from_bytes(data[i:i + 4].ljust(4, b"\0"), "big")
    return limbs((s % 2**32).to_bytes(4, "big"))


def random_cfg(rng: random.Random, default_fh: bool = True, **fixed) -> dict:
    size = rng.choice([0, 1, 3, 4, 5, 8, 9, 12, 13])
    idw = rng.choice([1, 2, 2, 4])
    kw = dict(
        mode=rng.choice(["ACK", "UNACK"]), closure=rng.choice([True, False]), segLen=rng.choice([1, 3, 4, 4, 64, 0]),
        maxPkt=rng.choice([64, 128, 512]), crc=rng.choice([False, False, True]),
        chk=rng.choice(["CRC32", "CRC32", "CRC32C", "NULL", "MODULAR"]),
        ackLim=rng.choice([1, 2, 3]), nakLim=rng.choice([1, 2, 3]), chkLim=rng.choice([1, 2, 3]),
        ackInt=rng.choice([1000, 700]), nakInt=rng.choice([1000, 1300]), chkInt=rng.choice([1000, 500]),
        immNak=rng.choice([True, False]), disp=rng.choice([True, False]),
        sIdW=idw, dIdW=rng.choice([idw, idw, 1, 2]), seqW=rng.choice([1, 2, 4]), seq0=rng.choice([0, 0, 5, 254]),
        file=[rng.randrange(256) for _ in range(size)],
    )
    if not default_fh:
        kw["fhS"] = dict(FH_DEFAULT, **{c: rng.choice(FHC) for c in DECLARABLE})
        kw["fhD"] = dict(FH_DEFAULT, **{c: rng.choice(FHC) for c in DECLARABLE})
    if rng.random() < 0.3:
        kw["indS"] = {k: rng.random() < 0.5 for k in IND_DEFAULT}
        kw["indD"] = {k: rng.random() < 0.5 for k in IND_DEFAULT}
    kw.update(fixed)
    return mkcfg(**kw)


def wire_hdr(cfg: dict, direction: str, seq: int, mode: str | None = None) -> dict:
    w = max(cfg["sIdW"], cfg["dIdW"])
    return dict(dir=direction, mode=mode or cfg["mode"], crc=cfg["crc"], lf=False, sw=w, sv=cfg["sId"], dw=w,
                dv=cfg["dId"], qw=cfg["seqW"], qv=seq)


def _other(hdr: dict, k: str) -> int:
    """A value of header field k different from the current one that still fits the field width."""
    w = hdr[{"sv": "sw", "dv": "dw", "qv": "qw"}[k]]
    return hdr[k] + 1 if hdr[k] + 1 < 256 ** w else hdr[k] - 1


# --------------------------------------------------------------------------------------------------
def drive_src_random(rng: random.Random, tid: int, default_fh: bool = True, leave: float = 0.07, filechange: bool = True,
                     **fixed) -> dict:
    """A lone SourceHandler fed adversarial inputs: any PDU kind, ids, directions, NAK ranges, clock jumps,
    right/wrong cancels, premature puts, deliberately unretrieved PDUs, file changes, several transactions."""
    cfg = random_cfg(rng, default_fh, **fixed)
    w = World(cfg)
    size = len(cfg["file"])
    mode_now = cfg["mode"]

    def seq():
        t = w.src.transaction_id
        return t.seq_num.value if t is not None else cfg["seq0"]

    def put():
        nonlocal mode_now
        c = w.cfg
        r = rng.random()
        if r < 0.08:
            req = w.put_request(source_file=w.sdir / "missing.bin")
        elif r < 0.14:
            from spacepackets.util import ByteFieldGenerator
            req = w.put_request(destination_id=ByteFieldGenerator.from_int(c["dIdW"], 99))
        elif r < 0.24:
            req = w.put_request(source_file=None, dest_file=None)
        else:
            from world import MODE
            pm = rng.choice([None, None, "ACK", "UNACK"])
            pc = rng.choice([None, None, True, False])
            req = w.put_request(trans_mode=None if pm is None else MODE[pm], closure_requested=pc)
            if w.src.state.name == "IDLE":
                mode_now = pm or c["mode"]
        w.call("S", "put", req)

    put()
    for _ in range(rng.randint(5, 45)):
        r = rng.random()
        take = None if rng.random() >= leave else rng.choice([0, 1])
        hdr = wire_hdr(cfg, "TS", seq(), mode_now)
        if rng.random() < 0.06:
            k = rng.choice(["dir", "sv", "dv", "qv"])
            hdr = dict(hdr)
            if k == "dir":
                hdr["dir"] = "TR"
            else:
                hdr[k] = _other(hdr, k)
        if r < 0.40:
            w.call("S", "fsm", None, take=take)
        elif r < 0.50:
            Clock.now += rng.choice([300, 700, 1000, 1500])
        elif r < 0.58:
            a = dict(h=hdr, t="ACK", acked=rng.choice(["EOF", "EOF", "EOF", "FIN"]), cond="NO_ERROR", tstat="ACTIVE")
            w.call("S", "fsm", w.conc(a), take=take)
        elif r < 0.66:
            a = dict(h=hdr, t="FIN", cond=rng.choice(["NO_ERROR", "NO_ERROR", "CANCEL_REQUEST_RECEIVED", "FILE_CHECKSUM_FAILURE"]),
                     deliv=rng.choice(["DATA_COMPLETE", "DATA_INCOMPLETE"]),
                     fstat=rng.choice(["FILE_RETAINED", "FILE_STATUS_UNREPORTED", "DISCARDED_DELIBERATELY"]),
                     floc=dict(set=False, v=[]))
            w.call("S", "fsm", w.conc(a), take=take)
        elif r < 0.82:
            reqs = []
            for _ in range(rng.randint(0, 3)):
                a, b = rng.randint(0, size + 2), rng.randint(0, size + 2)
                if rng.random() < 0.75 and a > b:
                    a, b = b, a
                if rng.random() < 0.15:
                    a, b = 0, 0
                reqs.append([a, b])
            w.call("S", "fsm", w.conc(dict(h=hdr, t="NAK", sos=0, eos=size, reqs=reqs)), take=take)
        elif r < 0.86:
            k = rng.choice(["KA", "PROMPT", "MD", "EOF", "FD"])
            if k == "KA":
                a = dict(h=hdr, t="KA", progress=rng.randint(0, 20))
            elif k == "PROMPT":
                a = dict(h=hdr, t="PROMPT", resp=rng.choice([0, 1]))
            elif k == "MD":
                a = dict(h=hdr, t="MD", closure=False, chkType="NULL", size=3, srcName="s/a", dstName="d/b", opts=[])
            elif k == "EOF":
                a = dict(h=hdr, t="EOF", cond="NO_ERROR", size=3, chk=[0, 1], floc=dict(set=False, v=[]))
            else:
                a = dict(h=hdr, t="FD", off=0, data=[1, 2])
            w.call("S", "fsm", w.conc(a), take=take)
        elif r < 0.93:
            w.call("S", "cancel", rng.random() < 0.8)
        elif r < 0.97:
            put()
        elif r < 0.985 and not cfg["mdOnly"] and filechange:
            # the source file grows while it is being sent (C09: the EOF checksum covers the bytes sent)
            extra = bytes(rng.randrange(256) for _ in range(rng.randint(1, 4)))
            cur = w.srcf.read_bytes() if w.srcf.exists() else b""
            w.srcf.write_bytes(cur + extra)
            w.ev.append(dict(side="S", call="env", arg=dict(t="filechange", data=list(cur + extra)), now=Clock.now,
                             take=-1, wrej=False, nwrites=0, pre=w.pub("S"), post=w.pub("S"), ret="none", exc="none",
                             excr="none", excw="none", out=[], ind=[], flt=[], fs=[], srcIntact=False))
        else:
            w.call("S", "reset")
    tr = w.trace(tid, "src")
    w.cleanup()
    return tr


def drive_dst_random(rng: random.Random, tid: int, default_fh: bool = True, leave: float = 0.07, **fixed) -> dict:
    """A lone DestHandler fed arbitrary well-formed PDUs: Metadata, File Data (any offsets, overlaps, beyond EOF,
    bit flips), EOF (sizes, checksums, cancel), ACK, wrong kinds/ids/directions, clock jumps, cancels, write rejections."""
    cfg = random_cfg(rng, default_fh, **fixed)
    cfg["file"] = [rng.randrange(256) for _ in range(12)]
    cfg["dstShape"] = rng.choice(["file", "file", "existing", "dir", "direxisting"])
    cfg["dstOld"] = [rng.randrange(256) for _ in range(rng.choice([0, 5, 20]))]
    w = World(cfg)
    content = bytes(cfg["file"])
    mode = rng.choice(["ACK", "UNACK"])
    seqn = [rng.choice([0, 3])]

    def hdr():
        return wire_hdr(cfg, "TR", seqn[0], mode)

    def md():
        only = rng.random() < 0.07
        clo = rng.choice([True, False])
        ct = rng.choice(["CRC32", "CRC32", "CRC32C", "NULL", "MODULAR"]) if rng.random() < 0.3 else cfg["chk"]
        sz = rng.choice([0, 12, 12, 12, 8])
        opts = [dict(t=2, v=[1, 2, 3])] if rng.random() < 0.2 else []
        if only:
            return dict(h=hdr(), t="MD", closure=clo, chkType="NULL", size=0, srcName="none", dstName="none", srcBase="none",
                        opts=opts)
        return dict(h=hdr(), t="MD", closure=clo, chkType=ct, size=sz, srcName="s/" + cfg["srcName"],
                    dstName="d/" + cfg["dstName"], srcBase=cfg["srcName"], opts=opts)

    for _ in range(rng.randint(3, 34)):
        r = rng.random()
        take = None if rng.random() >= leave else rng.choice([0, 1])
        h = hdr()
        if rng.random() < 0.05:
            k = rng.choice(["dir", "sv", "dv", "qv"])
            if k == "dir":
                h["dir"] = "TS"
            else:
                h[k] = _other(h, k)
        if r < 0.18:
            w.call("D", "fsm", None, take=take)
        elif r < 0.30:
            a = md()
            a["h"] = h
            w.call("D", "fsm", w.conc(a), take=take)
        elif r < 0.64:
            off = rng.choice([0, 4, 8, 2, 6, 12, 14, 0, 4, 8])
            ln = rng.choice([0, 2, 4, 4, 4, 6])
            d = (content[off:off + ln] + b"xxxxxx")[:ln]
            if rng.random() < 0.07 and ln > 0:
                d = bytes([d[0] ^ 1]) + d[1:]
            w.call("D", "fsm", w.conc(dict(h=h, t="FD", off=off, data=list(d))), take=take, wrej=rng.random() < 0.06)
        elif r < 0.79:
            sz = rng.choice([0, 12, 12, 12, 12, 8, 16])
            cond = rng.choice(["NO_ERROR"] * 5 + ["CANCEL_REQUEST_RECEIVED"])
            chk = ref_checksum(cfg["chk"], content[:sz] if cfg["chk"] != "MODULAR" else content) if rng.random() < 0.85 else [0, 1]
            fl = dict(set=False, v=[]) if cond == "NO_ERROR" else dict(set=True, v=[0, 1])
            w.call("D", "fsm", w.conc(dict(h=h, t="EOF", cond=cond, size=sz, chk=chk, floc=fl)), take=take)
        elif r < 0.85:
            a = dict(h=h, t="ACK", acked=rng.choice(["FIN", "FIN", "FIN", "EOF"]), cond="NO_ERROR", tstat="ACTIVE")
            p = w.conc(a)
            w.call("D", "fsm", p, take=take)
        elif r < 0.88:
            k = rng.choice(["PROMPT", "NAK", "FIN", "KA"])
            if k == "PROMPT":
                a = dict(h=h, t="PROMPT", resp=0)
            elif k == "NAK":
                a = dict(h=h, t="NAK", sos=0, eos=4, reqs=[[0, 4]])
            elif k == "FIN":
                a = dict(h=h, t="FIN", cond="NO_ERROR", deliv="DATA_COMPLETE", fstat="FILE_RETAINED", floc=dict(set=False, v=[]))
            else:
                a = dict(h=h, t="KA", progress=3)
            w.call("D", "fsm", w.conc(a), take=take)
        elif r < 0.95:
            Clock.now += rng.choice([500, 1001, 2100])
        elif r < 0.99:
            w.call("D", "cancel", rng.random() < 0.8)
        else:
            seqn[0] += 1
    tr = w.trace(tid, "dst")
    w.cleanup()
    return tr


# ---- entry points for harness/flow.py (seeded, keyword-only) ----
def src_random(tid: int, seed: int, default_fh: bool = True, leave: float = 0.07, filechange: bool = True, **fixed) -> dict:
    return drive_src_random(random.Random(seed), tid, default_fh, leave, filechange, **fixed)


def dst_random(tid: int, seed: int, default_fh: bool = True, leave: float = 0.07, **fixed) -> dict:
    return drive_dst_random(random.Random(seed), tid, default_fh, leave, **fixed)


def src_nominal(tid: int, seed: int) -> dict:
    """A lone SourceHandler, no inbound PDUs: the PDU stream of one or more put requests (C07 / C19), larger files,
    segment lengths and packet lengths around the break points, all widths."""
    rng = random.Random(seed)
    idw = rng.choice([1, 2, 4, 8])
    dw = rng.choice([idw, idw, 1, 2])
    qw = rng.choice([1, 2, 4])
    crc = rng.random() < 0.4
    base = 4 + 2 * max(idw, dw) + qw + 4 + (2 if crc else 0)
    max_pkt = rng.choice([base + 8, base + 9, base + 20, 64 + base, 512])
    seg = rng.choice([0, 1, 3, 7, 8, 9, 20, 64, 1000])
    eff = max_pkt - base if seg == 0 or seg >= max_pkt - base else seg
    size = rng.choice([0, 1, eff - 1, eff, eff + 1, 2 * eff, 2 * eff + 1, 3 * eff + 2, rng.randint(0, 4 * eff)])
    size = max(0, min(size, 300))
    cfg = mkcfg(mode=rng.choice(["ACK", "UNACK"]), closure=rng.random() < 0.5, segLen=seg, maxPkt=max_pkt, crc=crc,
                chk=rng.choice(["CRC32", "CRC32C", "NULL", "MODULAR"]), sIdW=idw, dIdW=dw, seqW=qw,
                sId=rng.choice([1, 77]), dId=rng.choice([2, 200]), seq0=rng.choice([0, 9, 254, 255]),
                file=[rng.randrange(256) for _ in range(size)], mdOnly=rng.random() < 0.08,
                putMode=rng.choice(["none", "none", "ACK", "UNACK"]), putClosure=rng.choice(["none", "none", "true", "false"]),
                msgs=rng.choice([[], [], [[1, 2, 3]]]))
    w = World(cfg)
    other = w.sdir / "other.bin"
    w.put_file(w.sfs, other, bytes(rng.randrange(256) for _ in range(rng.choice([0, 3, size, size + 5]))))
    for _ in range(rng.choice([1, 1, 2, 3])):
        w.call("S", "put", w.put_request())
        for _ in range(size + 12):
            if rng.random() < 0.06 and not cfg["mdOnly"]:
                # the application asks for another file while the handler is busy: refused, the running transfer is unaffected
                w.call("S", "put", w.put_request(source_file=other))
            e = w.call("S", "fsm", None)
            if any(o["t"] == "EOF" for o in e["out"]) or w.src.state.name == "IDLE":
                break
        w.call("S", "fsm", None)
        if w.src.state.name != "IDLE":
            w.call("S", "reset")
    tr = w.trace(tid, "src")
    w.cleanup()
    return tr


def solo_replay(tid: int, cfg: dict, side: str, ins: list) -> dict:
    """Replays one input sequence of the adversarial single-handler model (spec/Solo.tla) into a lone real handler."""
    from pathlib import Path

    from spacepackets.cfdp.tlv import MessageToUserTlv
    from spacepackets.util import ByteFieldGenerator

    from cfdppy.request import PutRequest
    from world import MODE
    w = World(cfg)
    try:
        for i in ins:
            k, a = i["k"], i["a"]
            if k == "tick":
                Clock.now += a["dt"]
            elif k == "fsm":
                w.call(side, "fsm", None if a["t"] == "none" else w.conc(a), wrej=bool(i.get("w")))
            elif k == "cancel":
                w.call(side, "cancel", a["right"])
            elif k == "reset":
                w.call(side, "reset")
            elif k == "lazy":
                w.call(side, "fsm", None, take=0)
            elif k == "put":
                if a["mdOnly"]:
                    sf = df = None
                else:
                    sf = w.srcf if a["exists"] else w.sdir / "missing.bin"
                    df = w.dstf
                did = ByteFieldGenerator.from_int(a["dIdW"], a["dId"] if a["known"] else 99)
                w.call(side, "put", PutRequest(destination_id=did, source_file=sf, dest_file=df,
                                               trans_mode=None if a["mode"] == "none" else MODE[a["mode"]],
                                               closure_requested=None if a["closure"] == "none" else a["closure"] == "true",
                                               msgs_to_user=[MessageToUserTlv(bytes(m)) for m in a["msgs"]] or None,
                                               **xopts_kw(a.get("xopts"))))
            else:
                raise ValueError(k)
        return w.trace(tid, "src" if side == "S" else "dst", sched=ins)
    finally:
        w.cleanup()


def shared_provider(tid: int, seed: int) -> dict:
    """Two SourceHandlers of one entity sharing one sequence-number provider, transactions started alternately (C19: no two
    transactions share a transaction id).  Recorded as ONE source-side trace (the second handler's events are appended with
    the same projection), so the C19 monitor sees the 'transaction' indications of both in global order."""
    from world import SeqProv
    rng = random.Random(seed)
    qw = rng.choice([1, 2])
    cfg = mkcfg(mode=rng.choice(["ACK", "UNACK"]), seqW=qw, seq0=rng.choice([0, 250, 255]), file=[1, 2, 3], segLen=2)
    prov = SeqProv(qw * 8, cfg["seq0"])
    wa = World(cfg, seqprov=prov)
    wb = World(cfg, seqprov=prov)
    ev = []
    for _ in range(rng.randint(3, 8)):
        w = rng.choice([wa, wb])
        if w.src.state.name == "IDLE":
            w.call("S", "put", w.put_request())
            ev.append(w.ev[-1])
        for _ in range(rng.randint(1, 3)):
            w.call("S", "fsm", None)
            ev.append(w.ev[-1])
        if rng.random() < 0.5 and w.src.state.name == "BUSY":
            w.call("S", "reset")
            ev.append(w.ev[-1])
    tr = wa.trace(tid, "multi")
    tr["ev"] = ev
    wa.cleanup()
    wb.cleanup()
    return tr


def dst_grid(tid: int, seed: int) -> dict:
    """A lone DestHandler in acknowledged mode fed the segments of a grid-segmented file (what a real source sends and
    re-sends): any arrival order, losses, duplicates, Metadata and EOF at any position, None-calls, NAK-timer expiries;
    both NAK modes; maximum packet lengths that allow 1, 2, 3 or many segment requests per NAK PDU (C05 / C06)."""
    rng = random.Random(seed)
    seg = rng.choice([1, 2, 4])
    nseg = rng.randint(1, 6)
    size = seg * nseg - rng.choice([0, 0, seg - 1 if seg > 1 else 0])
    idw, qw, crc = rng.choice([1, 2]), rng.choice([1, 2]), rng.random() < 0.3
    nak_base = 4 + 2 * idw + qw + 1 + 8 + (2 if crc else 0)
    max_pkt = rng.choice([nak_base + 8 * k for k in (1, 2, 3)] + [512, 512])
    cfg = mkcfg(mode="ACK", closure=rng.random() < 0.5, segLen=seg, maxPkt=max_pkt, crc=crc, chk=rng.choice(["CRC32", "CRC32C", "NULL"]),
                sIdW=idw, dIdW=idw, seqW=qw, immNak=rng.random() < 0.5, nakLim=rng.choice([2, 3, 4]), ackLim=3,
                file=[rng.randrange(256) for _ in range(size)], dstShape=rng.choice(["file", "existing", "dir"]),
                dstOld=[9] * rng.choice([0, 30]), disp=rng.random() < 0.5)
    w = World(cfg)
    content = bytes(cfg["file"])
    h = wire_hdr(cfg, "TR", rng.choice([0, 7]), "ACK")
    md = dict(h=h, t="MD", closure=cfg["closure"], chkType=cfg["chk"], size=size, srcName="s/" + cfg["srcName"],
              dstName="d/" + cfg["dstName"], srcBase=cfg["srcName"], opts=[])
    segs = [dict(h=h, t="FD", off=o, data=list(content[o:o + seg])) for o in range(0, size, seg)]
    eof = dict(h=h, t="EOF", cond="NO_ERROR", size=size, chk=ref_checksum(cfg["chk"], content), floc=dict(set=False, v=[]))
    first = [md] + segs + [eof]
    # initial pass: drop some, swap some; Metadata / EOF may move
    stream = [p for p in first if rng.random() > 0.25]
    if rng.random() < 0.5:
        rng.shuffle(stream)
    elif len(stream) > 2 and rng.random() < 0.5:
        i = rng.randrange(len(stream) - 1)
        stream[i], stream[i + 1] = stream[i + 1], stream[i]
    stream += [p for p in first if rng.random() < 0.15]   # duplicates
    for p in stream:
        w.call("D", "fsm", w.conc(p))
        if rng.random() < 0.4:
            w.call("D", "fsm", None)
    # then behave like a source: answer NAKs (sometimes lossy), poll, let the NAK timer expire
    for _ in range(rng.randint(4, 30)):
        if w.dst.state.name == "IDLE":
            break
        e = w.call("D", "fsm", None)
        naks = [o for o in e["out"] if o["t"] == "NAK"]
        for n in naks:
            for s, t in n["reqs"]:
                if rng.random() < 0.2:
                    continue
                if (s, t) == (0, 0):
                    w.call("D", "fsm", w.conc(md))
                else:
                    for o in range(s - s % seg, t, seg):
                        if rng.random() < 0.85:
                            w.call("D", "fsm", w.conc(dict(h=h, t="FD", off=o, data=list(content[o:o + seg]))))
        if any(o["t"] == "FIN" for o in e["out"]) and rng.random() < 0.7:
            w.call("D", "fsm", w.conc(dict(h=h, t="ACK", acked="FIN", cond="NO_ERROR", tstat="ACTIVE")))
        if not naks and rng.random() < 0.5:
            Clock.now += rng.choice([400, 1001])
        if rng.random() < 0.1 and eof not in stream:
            w.call("D", "fsm", w.conc(eof))
            stream.append(eof)
    tr = w.trace(tid, "dst")
    w.cleanup()
    return tr


def fh_table(tid: int, seed: int) -> dict:
    """The configuration API of the fault-handler table: set_handler for EVERY condition code x handler code (C14)."""
    from spacepackets.cfdp import ConditionCode, FaultHandlerCode

    from world import RecFH
    ev = []
    names = {FaultHandlerCode.NOTICE_OF_CANCELLATION: "cancel", FaultHandlerCode.IGNORE_ERROR: "ignore",
             FaultHandlerCode.ABANDON_TRANSACTION: "abandon", FaultHandlerCode.NOTICE_OF_SUSPENSION: "suspend"}
    for cond in ConditionCode:
        for code in FaultHandlerCode:
            if code not in names:
                continue
            fh = RecFH(None, "S", {})
            exc, got = "none", "none"
            try:
                fh.set_handler(cond, code)
                g = fh.get_fault_handler(cond)
                got = names.get(g, "none")
            except Exception as e:  # noqa: BLE001
                exc = type(e).__name__
            ev.append(dict(side="E", call="set_handler", cond=cond.name, code=names[code], exc=exc, got=got))
    return dict(tid=tid, kind="fhtable", cfg=mkcfg(), sched=[], fs0=[], props=[], ev=ev)


def isolation(tid: int, seed: int) -> list:
    """C11: a transaction T after a random history H of earlier transactions on the SAME handler objects (completed, cancelled
    by either user, faulted to the limits, cut off and abandoned, reset mid-way), optionally while sibling handler instances
    of the same process are mid-transaction, versus the same T on freshly constructed handlers.
    Returns [fresh-run trace with ev2 = the T-part of the reused run (judged by monitor C11), the reused run (conformance)]."""
    import pair as pairmod
    rng = random.Random(seed)
    n = rng.choice([0, 1, 3, 5])
    nh = rng.choice([1, 1, 2, 3])
    modes = ["none", "ACK", "UNACK"]
    more = [dict(putMode=rng.choice(modes), putClosure=rng.choice(["none", "true", "false"]), gap=rng.choice([0, 700, 5000])) for _ in range(nh)]
    cfg = mkcfg(mode=rng.choice(["ACK", "UNACK"]), closure=rng.random() < 0.5, immNak=rng.random() < 0.5, segLen=rng.choice([1, 2]),
                ackLim=2, nakLim=2, chkLim=2, file=[rng.randrange(256) for _ in range(n)], chk=rng.choice(["CRC32", "CRC32C", "NULL"]),
                putMode=rng.choice(modes), putClosure=rng.choice(["none", "true", "false"]), more=more, seq0=rng.choice([0, 254]), seqW=1,
                disp=rng.random() < 0.5)
    if seed % 3 == 0:
        # segment length derived from the maximum packet length and the header widths; the HISTORY addresses the same remote
        # entity with a wider entity-id field (state written back into the shared MIB entry would leak into T)
        # (maxPkt >= 22: a NAK PDU without requests must fit with the WIDE header of the history, 13 + 1 + 8 bytes - below
        # that spacepackets' sizing helper raises ValueError out of the receiver, a MIB value outside what is modelled)
        n = rng.choice([20, 31])
        cfg.update(segLen=0, maxPkt=rng.choice([22, 25]), file=[rng.randrange(256) for _ in range(n)], putDIdW=4)
        for m in more[:-1]:
            m["putDIdW"] = 4
    a = pairmod.Pair(cfg)
    sib = None
    try:
        a.put()
        for k in range(nh):
            ending = rng.choice(["complete", "cancelS", "cancelD", "drops", "cut", "reset"])
            if ending in ("cancelS", "cancelD", "reset"):
                for _ in range(rng.randint(0, 6)):       # a few canonical steps, then the user steps in
                    a.run_on(max_turns=1, one_txn=True)
                if ending == "reset":
                    a.w.call("S", "reset")
                    a.w.call("D", "reset")
                    a.q["sd"].clear()
                    a.q["ds"].clear()
                elif (a.w.src if ending == "cancelS" else a.w.dst).state.name == "BUSY":
                    a.cancel("S" if ending == "cancelS" else "D")
            script = {}
            if ending == "drops":
                script = {(rng.choice(["sd", "ds"]), rng.randint(0, 6)): rng.choice(["drop", "dup"]) for _ in range(rng.randint(1, 3))}
            if ending == "cut":
                for _ in range(rng.randint(1, 6)):
                    a.run_on(max_turns=1, one_txn=True)
                a.fault("cut", rng.choice(["sd", "ds"]))
            ok = a.run_on(script=script, one_txn=True)
            a.cut.clear()
            if not ok:                                     # hung (e.g. finding F01): the application gives up
                a.w.call("S", "reset")
                a.w.call("D", "reset")
                a.q["sd"].clear()
                a.q["ds"].clear()
            if k < nh - 1:
                a.put(more[k]["gap"])
        # ---- T on the reused handlers ----
        n0 = len(a.w.ev)
        seq_at = a.w.seqprov.n
        old = [f for f in a.w.snapshot("D") if f["p"] == "d/" + cfg["dstName"] and not f["dir"]]
        tscript = rng.choice([{}, {}, {("sd", rng.randint(0, 4)): "drop"}, {("ds", rng.randint(0, 2)): "drop"}, {("sd", rng.randint(1, 3)): "dup"}])
        sibling = None
        if rng.random() < 0.5:
            # sibling handler instances (own objects) of the same process, mid-transaction with lost segments outstanding
            now = Clock.now
            sib = pairmod.Pair(mkcfg(immNak=False, segLen=1, file=[1, 2, 3, 4], seq0=77, srcName="sib.bin", dstName="sibdst.bin"), keep_clock=True)
            Clock.now = now
            sib.put()
            for _ in range(4):
                sib.run_on(max_turns=1, one_txn=True)
            sib.fault("drop", "sd")
            sibling = lambda: sib.run_on(max_turns=1, one_txn=True) if rng.random() < 0.5 else None  # noqa: E731
        gap = more[nh - 1]["gap"]
        a.put(gap)
        a_done = a.run_on(script=dict(tscript), one_txn=True, sibling=sibling)
        ev2 = a.w.ev[n0:]
        # ---- T on fresh handlers ----
        t_mode, t_clo = more[nh - 1]["putMode"], more[nh - 1]["putClosure"]
        cfg_b = dict(cfg, putMode=t_mode, putClosure=t_clo, more=[], seq0=seq_at, putDIdW=0,
                     dstShape="existing" if old else "file", dstOld=old[0]["d"] if old else [])
        b = pairmod.Pair(cfg_b)
        try:
            b.put()
            b_done = b.run_on(script=dict(tscript), one_txn=True)
            tb = b.w.trace(tid, "pair", sched=[["script", str(sorted(tscript.items()))]])
            tb.update(props=["C11", "C10"], nfaults=b.nfaults, ncorrupt=0, done=b_done, cuts=[], ev2=ev2, done2=a_done)
        finally:
            b.w.cleanup()
        ta = a.w.trace(tid + 1000000, "pair")
        ta.update(props=["C10"], nfaults=a.nfaults, ncorrupt=a.ncorrupt, done=a_done, cuts=[])
        return [tb, ta]
    finally:
        a.w.cleanup()
        if sib is not None:
            sib.w.cleanup()


def isolation_process(tid: int, seed: int) -> list:
    """C11, process-level state: transaction T (segment length derived from the maximum packet length) on handlers constructed
    AFTER sibling handlers of the same process, with other id / sequence-number widths, ran transfers towards the same remote
    entity - versus T on fresh handlers in a pristine interpreter (harness/fresh_run.py)."""
    import json
    import subprocess
    import sys
    import pair as pairmod
    rng = random.Random(seed)
    idw, qw = rng.choice([1, 2, 4]), rng.choice([1, 2, 4])
    base = 4 + 2 * idw + qw + 4
    cfg = mkcfg(mode=rng.choice(["ACK", "UNACK"]), closure=rng.random() < 0.5, segLen=0, maxPkt=base + rng.choice([8, 12]), sIdW=idw, dIdW=idw,
                seqW=qw, file=[rng.randrange(256) for _ in range(rng.choice([0, 5, 20, 31]))], seq0=rng.choice([0, 3]))
    sibs = []
    try:
        for _ in range(rng.randint(1, 2)):
            w2, q2 = rng.choice([1, 2, 4]), rng.choice([1, 2, 4])
            s = pairmod.Pair(mkcfg(mode="UNACK", segLen=0, maxPkt=cfg["maxPkt"], sIdW=w2, dIdW=w2, seqW=q2, file=list(range(30)),
                                   srcName="sib.bin", dstName="sibdst.bin"))
            sibs.append(s)
            s.put()
            s.run_on(one_txn=True)
        if rng.random() < 0.6:
            # ... and a sibling pair that is left MID-transaction in acknowledged mode with lost segments outstanding
            # (state that lives in a class attribute or a module, not in the handler object, would leak from here)
            now = Clock.now
            s = pairmod.Pair(mkcfg(mode="ACK", immNak=rng.random() < 0.5, segLen=1, file=[1, 2, 3, 4, 5], seq0=77,
                                   srcName="sibgap.bin", dstName="sibgapdst.bin"), keep_clock=True)
            Clock.now = now
            sibs.append(s)
            s.put()
            for _ in range(rng.randint(3, 5)):
                s.run_on(max_turns=1, one_txn=True)
            s.fault("drop", "sd")
            for _ in range(rng.randint(2, 6)):
                s.run_on(max_turns=1, one_txn=True)
        a = pairmod.Pair(cfg)
        try:
            tscript = rng.choice([{}, {("sd", rng.randint(0, 4)): "drop"}])
            a.put()
            a_done = a.run_on(script=dict(tscript), one_txn=True)
            job = dict(cfg=cfg, script=[[l, n, k] for (l, n), k in tscript.items()])
            p = subprocess.run([sys.executable, str(Path(__file__).resolve().parent / "fresh_run.py")], input=json.dumps(job), text=True,
                               capture_output=True, timeout=120)
            if p.returncode != 0:
                raise RuntimeError("fresh_run failed: " + p.stderr[-500:])
            tb = json.loads(p.stdout)
            tb.update(tid=tid, props=["C11", "C10"], ev2=a.w.ev, done2=a_done, sched=[["script", str(sorted(tscript.items()))]])
            ta = a.w.trace(tid + 1000000, "pair")
            ta.update(props=["C10"], nfaults=a.nfaults, ncorrupt=0, done=a_done, cuts=[])
            return [tb, ta]
        finally:
            a.w.cleanup()
    finally:
        for s in sibs:
            s.w.cleanup()

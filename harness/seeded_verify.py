"""Developer tool: confirm every seeded change in a scratch worktree of /repo (outside /repo and /verif):
  the patch applies, the repository's test suite still passes with it, the demonstration passes without it and fails with it.
Writes seeded/<id>/meta.json.  usage: seeded_verify.py [ids...]"""
import json
import subprocess
import sys
import time
from pathlib import Path

VERIF = Path(__file__).resolve().parent.parent
WT = Path("/tmp/cfdp_seed_wt")


def sh(cmd, **kw):
    return subprocess.run(cmd, shell=True, capture_output=True, text=True, **kw)


def main():
    ids = sys.argv[1:]
    dirs = sorted(d for d in (VERIF / "seeded").iterdir() if d.is_dir() and (not ids or any(d.name.startswith(i) for i in ids)))
    sh(f"git -C /repo worktree remove --force {WT}")
    assert sh(f"git -C /repo worktree add --detach {WT} HEAD").returncode == 0
    head = sh("git -C /repo log --format=%h -1").stdout.strip()
    try:
        for d in dirs:
            meta = {}
            mf = d / "meta.json"
            if mf.exists():
                meta = json.loads(mf.read_text())
            env = f"PYTHONPATH={WT}/src PYTHONHASHSEED=0"
            base = sh(f"cd {d} && {env} timeout 600 /venv/bin/python demo.py", timeout=700)
            ap = sh(f"git -C {WT} apply {d / 'patch.diff'}")
            if ap.returncode != 0:
                print(d.name, "PATCH DOES NOT APPLY")
                continue
            tests = sh(f"cd {WT} && {env} /venv/bin/python -m pytest -q -p no:cacheprovider --timeout=900 2>&1 | tail -1", timeout=900)
            mut = sh(f"cd {d} && {env} timeout 600 /venv/bin/python demo.py", timeout=700)
            sh(f"git -C {WT} checkout -- . && git -C {WT} clean -fdq")
            ok = base.returncode == 0 and mut.returncode != 0 and "78 passed" in tests.stdout
            notes = (d / "notes.md").read_text().strip().splitlines()
            meta.update(id=d.name, property=d.name.split("-")[0], confirmed=ok, repo_head=head,
                        demo_without_change=base.returncode, demo_with_change=mut.returncode, test_suite_with_change=tests.stdout.strip(),
                        summary=notes[0].lstrip("# ").strip() if notes else "",
                        needs=" ".join(l.strip() for l in notes if any(w in l.lower() for w in ("needed to manifest", "what it needs", "needs to manifest", "trigger", "what is needed")))[:600],
                        ran=f"git worktree of /repo@{head} under /tmp; git apply patch.diff; pytest (78 tests); PYTHONPATH=<worktree>/src python demo.py "
                            f"with and without the change; worktree removed afterwards",
                        rebased=(d / "patch.orig.diff").exists(), verified_at=time.strftime("%Y-%m-%d %H:%M"))
            mf.write_text(json.dumps(meta, indent=1) + "\n")
            print(d.name, "confirmed" if ok else f"NOT CONFIRMED base={base.returncode} mut={mut.returncode} tests={tests.stdout.strip()[-40:]}")
    finally:
        sh(f"git -C /repo worktree remove --force {WT}")


main()

"""CLI dispatcher: ./check <ID> [--tier quick|thorough] [--replay path]"""
from __future__ import annotations

import argparse
import importlib
import os
import sys
import time
import traceback
from pathlib import Path

HERE = Path(__file__).resolve().parent
sys.path.insert(0, str(HERE))
REPO = Path(os.environ.get("CFDP_REPO", "/repo"))
sys.path.insert(0, str(REPO / "src"))  # the working tree, not an installed copy


def main() -> int:
    ap = argparse.ArgumentParser()
    ap.add_argument("prop")
    ap.add_argument("--tier", default=os.environ.get("VERIF_TIER", "quick"), choices=["quick", "thorough"])
    ap.add_argument("--replay", default=None)
    ap.add_argument("--keep", action="store_true", help="keep build/<id> scratch directory")
    a = ap.parse_args()
    import cfdppy

    if not str(Path(cfdppy.__file__).resolve()).startswith(str(REPO.resolve())):
        print(f"MACHINERY: cfdppy imported from {cfdppy.__file__}, expected {REPO}/src")
        return 2
    from common import MachineryError

    try:
        mod = importlib.import_module("checks." + a.prop.lower())
    except ModuleNotFoundError:
        print(f"MACHINERY: no check for {a.prop}")
        return 2
    t0 = time.time()
    try:
        if a.replay:
            rc = mod.replay(a.replay)
        else:
            rc = mod.run(a.tier, keep=a.keep)
    except MachineryError as e:
        print(f"MACHINERY: {a.prop}: {e}")
        return 2
    except Exception:
        traceback.print_exc()
        print(f"MACHINERY: {a.prop}: internal error of the verification machinery")
        return 2
    print(f"{a.prop} {a.tier}: exit {rc} after {time.time() - t0:.1f}s")
    return rc


if __name__ == "__main__":
    sys.exit(main())

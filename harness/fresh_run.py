"""Runs ONE transaction on freshly constructed handlers in a pristine interpreter (reference run for C11).
stdin: JSON {cfg, script: [[link, n, kind], ...]};  stdout: JSON trace"""
import json
import os
import sys
from pathlib import Path

HERE = Path(__file__).resolve().parent
sys.path.insert(0, str(HERE))
sys.path.insert(0, os.environ.get("CFDP_REPO", "/repo") + "/src")
import pair  # noqa: E402

job = json.loads(sys.stdin.read())
b = pair.Pair(job["cfg"])
try:
    b.put()
    done = b.run_on(script={(l, n): k for l, n, k in job["script"]}, one_txn=True)
    t = b.w.trace(0, "pair")
    t.update(nfaults=b.nfaults, ncorrupt=0, done=done, cuts=[])
    print(json.dumps(t))
finally:
    b.w.cleanup()

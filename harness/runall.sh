#!/bin/sh
# developer tool: run every registered check (quick by default) and summarise
TIER=${1:-quick}
cd "$(dirname "$0")/.."
for p in $(/venv/bin/python -c "import json;print(' '.join(c['property_id'] for c in json.load(open('MANIFEST.json'))['checks']))"); do
  s=$(date +%s)
  out=$(./check $p --tier $TIER 2>&1); rc=$?
  e=$(date +%s)
  echo "$p rc=$rc $((e-s))s $(echo "$out" | grep -c '^VIOLATION') violations $(echo "$out" | grep -c '^KNOWN-FINDING') known $(echo "$out" | grep -c '^DRIFT') drift $(echo "$out" | grep '^MACHINERY' | cut -c1-200)"
done

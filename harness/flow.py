"""The common shape of a check: model instances (TLC) -> schedules executed on the real code -> traces validated and
judged by TLC (conformance with the transducers + property monitors) -> verdict lines + evidence.

Python only orchestrates; every verdict about a property comes from TLC."""
from __future__ import annotations

import json
import os
import random
import shutil
import time
from concurrent.futures import ProcessPoolExecutor
from pathlib import Path

import models
import tracecheck
from common import MachineryError, Outcome, seed, workdir, write_evidence

NPROC = int(os.environ.get("VERIF_NPROC", "16"))


def _exec_chunk(args):
    """Worker: execute a chunk of jobs on the real code.  job = (kind, tid, props, payload)"""
    import drivers
    import pair
    out = []
    for kind, tid, props, payload in args:
        if kind == "hist":
            cfg, hist, pacing = payload
            out.append(pair.run_hist(cfg, hist, tid, props, pacing=pacing))
        elif kind == "twin":
            cfg, hist, pacing = payload
            t1 = pair.run_hist(dict(cfg, memfs=False), hist, tid, props, pacing=pacing)
            t2 = pair.run_hist(dict(cfg, memfs=True), hist, tid + 1000000, [p for p in props if p != "C16"], pacing=pacing)
            t1["ev2"] = t2["ev"]
            t1["hostTouched"] = Path("/nonexistent_cfdpv").exists()
            out += [t1, t2]
        elif kind == "solo":
            cfg, side, ins = payload
            t = drivers.solo_replay(tid, cfg, side, ins)
            t["props"] = props
            out.append(t)
        elif kind == "fn":
            name, kw = payload
            t = getattr(drivers, name)(tid=tid, **kw)
            if isinstance(t, list):          # differential drivers return several executions with their own property tags
                out += t
            else:
                t["props"] = props
                out.append(t)
        else:
            raise ValueError(kind)
    return out


def execute(jobs: list) -> list[dict]:
    if not jobs:
        return []
    n = max(1, min(NPROC, len(jobs) // 8 + 1))
    chunks = [jobs[i::n] for i in range(n)]
    if n == 1:
        res = [_exec_chunk(chunks[0])]
    else:
        with ProcessPoolExecutor(max_workers=n) as ex:
            res = list(ex.map(_exec_chunk, chunks))
    out = [t for r in res for t in r]
    out.sort(key=lambda t: t["tid"])
    return out


def _diag(r) -> str:
    """what TLC said, without the printed schedules / sequences"""
    keep = [l for l in r.out.splitlines() if not l.startswith(('"SCHED', '"SOLO', '"VSOLO', '"CFGS')) and l.strip()]
    return f"(timed out: {getattr(r, 'timed_out', '?')}, rc {getattr(r, 'rc', '?')}) " + "\n".join(keep[-25:])[-2500:]


class Run:
    def __init__(self, prop: str, tier: str):
        self.prop = prop
        self.tier = tier
        self.quick = tier == "quick"
        self.t0 = time.time()
        self.wd = workdir(prop)
        from common import REPLAYS
        for f in REPLAYS.glob(f"{prop}_*.json"):      # replays of earlier runs of this check
            f.unlink()
        self.out = Outcome(prop)
        self.traces: list[dict] = []
        self.jobs: list = []
        self.next_tid = 1
        self.models: list[dict] = []
        self.states = 0
        self.transitions = 0
        self.exhaustive = True
        self.model_violated: list[str] = []
        self.sched_stats: dict[str, int] = {}
        self.rng = random.Random(seed() * 1000003 + sum(map(ord, prop)))

    # ---- model checking ----
    def model(self, name: str, cfgs: str, **kw):
        r = models.run_model(self.wd, name, cfgs, seed=seed(), **kw)
        timed_out = "TLC-TIMEOUT" in r.out
        rec = dict(name=name, cfgs=cfgs, states=r.distinct, transitions=r.generated, completed=r.completed,
                   violated=r.violated, wall_s=round(r.wall, 1), timed_out=timed_out,
                   **{k: (list(v) if isinstance(v, (tuple, list, set)) else v) for k, v in kw.items()
                      if k in ("K", "faults", "cancels", "cuts", "pacing", "invariants", "properties", "fair", "simulate")})
        self.models.append(rec)
        self.states += r.distinct
        self.transitions += r.generated
        if kw.get("simulate") or timed_out:
            self.exhaustive = False
        if r.violated:
            self.model_violated += [f"{name}:{v or 'temporal'}" for v in r.violated]
        elif not r.completed and not kw.get("simulate") and not timed_out:
            raise MachineryError(f"TLC did not complete on instance {name}: " + _diag(r))
        return r

    # ---- schedules from TLC, executed on the real handlers ----
    def schedules(self, name: str, cfgs: str, props: list[str], limit: int | None = None, twin: bool = False, **kw) -> int:
        """twin: every schedule is executed twice, on the native and on a purely in-memory filestore (C16)."""
        kw.setdefault("maxhist", 120)
        r = models.run_model(self.wd, name, cfgs, record=True, seed=seed(), **kw)
        if not (r.completed or kw.get("simulate")) and "TLC-TIMEOUT" not in r.out:
            raise MachineryError(f"schedule generation {name} failed: " + _diag(r))
        cfgs_by_id, sch = models.schedules(r, limit, self.rng)
        n_all = models.json_lines.last_total
        for cid, _status, hist in sch:
            self.jobs.append(("twin" if twin else "hist", self.next_tid, props, (cfgs_by_id[cid], hist, kw.get("pacing", "canon"))))
            self.next_tid += 1
        self.sched_stats[name] = len(sch)
        if kw.get("simulate") or n_all > len(sch):
            self.exhaustive = False
        from common import tagged_lines
        self.models.append(dict(name=name, cfgs=cfgs, schedules=len(sch), schedules_enumerated=n_all,
                                signatures=tagged_lines.signatures[0], signatures_replayed=tagged_lines.signatures[1], states=r.distinct, transitions=r.generated,
                                wall_s=round(r.wall, 1), emit=True))
        return len(sch)

    def solo(self, name: str, side: str, cfgs: str, cats, depth: int, props: list[str], allowed=(), limit: int | None = None,
             timeout: int = 3600, pre=()) -> int:
        """The adversarial single-handler model: TLC checks the monitors on every input sequence up to the depth bound over
        the transducer, and every sequence is replayed into a lone real handler."""
        r = models.run_solo(self.wd, name, side, cfgs, cats, depth, props, allowed=allowed, timeout=timeout, pre=pre)
        timed_out = "TLC-TIMEOUT" in r.out
        cfgs_by_id, seqs, viol = models.solo_sequences(r, limit, self.rng)
        n_all = models.json_lines.last_total
        if viol:
            self.model_violated.append(f"{name}:" + json.dumps(viol[0][1])[:300])
        elif not r.completed and not timed_out:
            raise MachineryError(f"TLC did not complete on solo instance {name}: " + _diag(r))
        if timed_out:
            self.exhaustive = False
        if n_all > len(seqs):
            self.exhaustive = False
        for cid, ins in list(models.solo_sequences.violating) + seqs:
            self.jobs.append(("solo", self.next_tid, props, (cfgs_by_id[cid], side, ins)))
            self.next_tid += 1
        self.states += r.distinct
        self.transitions += r.generated
        self.sched_stats[name] = len(seqs)
        self.models.append(dict(name=name, kind="solo", side=side, cfgs=cfgs, cats=list(cats), pre=[list(x) for x in pre], depth=depth, sequences=n_all,
                                replayed=len(seqs), signatures=models.solo_sequences.signatures[0],
                                signatures_replayed=models.solo_sequences.signatures[1], states=r.distinct, transitions=r.generated, wall_s=round(r.wall, 1),
                                completed=r.completed, model_violations=len(viol)))
        return len(seqs)

    def repo_tests(self, props: list[str]) -> int:
        """The repository's own test suite, run under the tracing plugin (harness/pytest_cfdptrace.py): every handler the
        tests construct is recorded and validated like any other execution."""
        import repotests
        from common import REPO
        traces, summary = repotests.record(REPO)
        if "passed" not in summary:
            raise MachineryError("repository test suite under the tracing plugin: " + summary)
        for t in traces:
            t["tid"] = self.next_tid
            t["props"] = props
            self.next_tid += 1
            self.traces.append(t)
        self.sched_stats["repo_tests"] = len(traces)
        self.models.append(dict(name="repo_tests", kind="trace-validation of the repository's own tests", pytest=summary, traces=len(traces)))
        return len(traces)

    def driver(self, fn: str, n: int, props: list[str], **kw) -> None:
        """n executions of a seeded driver of harness/drivers.py (each gets its own seed)."""
        for _ in range(n):
            self.jobs.append(("fn", self.next_tid, props, (fn, dict(kw, seed=self.rng.randrange(2**31)))))
            self.next_tid += 1

    # ---- judging ----
    CHUNK = 6000     # executions recorded, validated and absorbed at a time (bounds memory in the thorough tier)

    def judge(self) -> None:
        self.monitor_hits = 0
        self.clause_count: dict[str, int] = {}
        self.n_traces = 0
        self.n_events = 0
        self.kinds: dict[str, int] = {}
        self.distinct: set = set()
        self.samples: list = []
        self.n_drift = 0
        pre, self.traces = self.traces, []
        if pre:
            self._absorb(pre)
        jobs, self.jobs = self.jobs, []
        for i in range(0, len(jobs), self.CHUNK):
            self._absorb(execute(jobs[i:i + self.CHUNK]))

    def _absorb(self, traces: list[dict]) -> None:
        import hashlib
        verdicts = tracecheck.validate(traces, self.wd)
        for t in traces:
            v = verdicts[t["tid"]]
            self.n_traces += 1
            self.n_events += sum(1 for e in t["ev"] if e.get("side") != "E")
            self.kinds[t["kind"]] = self.kinds.get(t["kind"], 0) + 1
            key = json.dumps([t["cfg"].get(k) for k in ("mode", "closure", "immNak", "chk", "segLen")] + [t.get("sched")] +
                             [[e.get("call"), e.get("arg", {}).get("t")] for e in t["ev"]], sort_keys=True)
            self.distinct.add(hashlib.md5(key.encode()).digest()[:8])
            if len(self.samples) < 2 or (len(self.samples) < 3 and self.n_traces % 997 == 0):
                self.samples.append(dict(tid=t["tid"], kind=t["kind"], sched=t.get("sched"),
                                         cfg={k: t["cfg"].get(k) for k in ("mode", "closure", "immNak", "chk", "segLen", "file")},
                                         events=[dict(side=e["side"], call=e["call"], arg=e.get("arg", {}).get("t"),
                                                      out=[p["t"] for p in e.get("out", [])], exc=e.get("exc"))
                                                 for e in t["ev"][:40]]))
            if v["status"] != "ok":
                self.n_drift += 1
                if len(self.out.drift) < 20:
                    self.out.drift.append(dict(tid=t["tid"], at=v["at"], clauses=v["clauses"],
                                               explain=tracecheck.explain_drift(t, v)[:1200]))
            for x in v["viol"]:
                if x["prop"] != self.prop:
                    continue
                self.monitor_hits += 1
                self.clause_count[x["clause"]] = self.clause_count.get(x["clause"], 0) + 1
                rec = dict(x)
                at = x["at"]
                if 1 <= at <= len(t["ev"]) and t["ev"][at - 1].get("side") != "E":
                    e = t["ev"][at - 1]
                    rec.update(side=e["side"], call=e["call"], argt=e["arg"].get("t", "none"), step=e["pre"]["step"],
                               exc=e["exc"], excw=e["excw"])
                self.out.monitor_hit(rec, t, f"t{t['tid']}")

    def finish(self, level: str = "model_checking", assumptions: list[str] | None = None, extra: dict | None = None,
               keep: bool = False) -> int:
        ev_count, kinds, distinct, samples = self.n_events, self.kinds, len(self.distinct), self.samples
        if self.n_drift > len(self.out.drift):
            self.out.notes.append(f"DRIFT total: {self.n_drift} executions (first {len(self.out.drift)} kept)")
        ntr = self.n_traces
        cov = dict(
            states=max(self.states, 1), transitions=max(self.transitions, 1), exhaustive=self.exhaustive,
            traces_validated_against_impl=ntr, samples=samples or [dict(note="no executions")],
            evaluations=ev_count, distinct_nontrivial=distinct,
            rule="evaluations = public API calls of the real handlers recorded and judged by TLC; distinct = executions that "
                 "differ in configuration, schedule or call/argument-kind sequence",
            model_instances=self.models, executions_by_kind=kinds, schedules=self.sched_stats,
            conformance=dict(traces=ntr, drift=self.n_drift),
            monitor=dict(hits=self.monitor_hits, by_clause=self.clause_count, known=self.out.known_hits),
            model_result="violated: %s" % self.model_violated if self.model_violated else "no error",
            checker_cmd="tlc (spec/Cfdp.tla instances via spec/MC_Cfdp.tla; spec/CfdpTrace.tla over recorded executions)")
        if extra:
            cov.update(extra)
        write_evidence(self.prop, self.tier, level, cov, time.time() - self.t0, len(self.out.violations),
                       assumptions=(assumptions or []) + [
                           "TLC 1.8.0 evaluates the TLA+ specification correctly",
                           "the projection of harness/world.py reports what the handlers did (PDU fields, indications, callbacks, "
                           "public state, sandbox tree)"])
        rc = self.out.finish()
        if self.model_violated and rc == 0 and not self.out.known_hits:
            raise MachineryError(f"the model violates {self.model_violated} but no execution of the code does: "
                                 "the specification misrepresents the code")
        if not keep:
            shutil.rmtree(self.wd, ignore_errors=True)
        return rc


# ---- universal replay: re-issue the recorded inputs of a trace on the current tree ----
def reexecute(trace: dict) -> dict:
    from spacepackets.cfdp.tlv import MessageToUserTlv
    from spacepackets.util import ByteFieldGenerator

    from cfdppy.request import PutRequest
    from world import MODE, Clock, World, xopts_kw
    w = World(trace["cfg"])
    w.pair = trace["kind"] == "pair"
    try:
        for e in trace["ev"]:
            if e["side"] == "E":
                w.ev.append(e)
                continue
            Clock.now = e["now"]
            take = None if e["take"] < 0 else e["take"]
            a = e["arg"]
            if e["call"] == "put":
                sf = w.unrel(a["srcName"])
                df = w.unrel(a["dstName"])
                req = PutRequest(destination_id=ByteFieldGenerator.from_int(a["dIdW"], a["dId"]),
                                 source_file=None if sf is None else Path(sf), dest_file=None if df is None else Path(df),
                                 trans_mode=None if a["mode"] == "none" else MODE[a["mode"]],
                                 closure_requested=None if a["closure"] == "none" else a["closure"] == "true",
                                 msgs_to_user=[MessageToUserTlv(bytes(m)) for m in a["msgs"]] or None, **xopts_kw(a.get("xopts")))
                w.call(e["side"], "put", req, take=take)
            elif e["call"] == "fsm":
                w.call(e["side"], "fsm", None if a["t"] == "none" else w.conc(a), take=take, wrej=e["wrej"])
            elif e["call"] == "cancel":
                w.call(e["side"], "cancel", a["right"], take=take)
            elif e["call"] == "reset":
                w.call(e["side"], "reset", take=take)
            elif e["call"] == "env":
                w.srcf.write_bytes(bytes(a["data"]))
                w.ev.append(e)
        t = dict(trace, ev=w.ev, fs0=w.fs0)
        return t
    finally:
        w.cleanup()


def replay_file(prop: str, path: str) -> int:
    """./check <prop> --replay <path>: re-issue the recorded inputs on the current tree, let TLC judge the new execution."""
    obj = json.loads(Path(path).read_text())
    t0 = obj["trace"]
    if t0["kind"] == "pair" and "ev2" in t0:
        t = _exec_chunk([("twin", 1, t0["props"], (t0["cfg"], t0["sched"], t0.get("pacing", "canon")))])[0]
    elif t0["kind"] == "pair":
        import pair
        t = pair.run_hist(t0["cfg"], t0["sched"], 1, t0["props"], pacing=t0.get("pacing", "canon"))
    else:
        t = reexecute(t0)
    t["tid"] = 1
    wd = workdir(prop + "_replay")
    v = tracecheck.validate([t], wd)[1]
    hits = [x for x in v["viol"] if x["prop"] == prop]
    print(f"replay of {path}: conformance {v['status']}, monitor hits for {prop}: {json.dumps(hits)[:800]}")
    shutil.rmtree(wd, ignore_errors=True)
    if hits:
        print(f"VIOLATION property={prop} replay={path}")
        return 1
    return 0

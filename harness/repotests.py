"""Runs the repository's own test suite under the tracing plugin (harness/pytest_cfdptrace.py) and has TLC validate the
recorded executions of the real-time, hand-fed tests against the transducers and the monitors.
usage: repotests.py [repo dir]   -> prints a summary; returns (traces, verdicts) when imported"""
from __future__ import annotations

import json
import os
import shutil
import subprocess
import sys
import tempfile
from pathlib import Path

HERE = Path(__file__).resolve().parent
sys.path.insert(0, str(HERE))


def record(repo: Path) -> list[dict]:
    out = Path(tempfile.mkdtemp(prefix="cfdpv_repotests_"))
    try:
        env = dict(os.environ, CFDP_TRACE_OUT=str(out), PYTHONDONTWRITEBYTECODE="1", PYTHONPATH=f"{HERE}:{repo / 'src'}")
        p = subprocess.run([sys.executable, "-m", "pytest", "-p", "pytest_cfdptrace", "-q", "-p", "no:cacheprovider", "tests"], cwd=repo, env=env,
                           capture_output=True, text=True, timeout=1800)
        summary = (p.stdout.strip().splitlines() or [""])[-1]
        traces = [json.loads(f.read_text()) for f in sorted(out.glob("t*.json"))]
        for i, t in enumerate(traces):
            t["tid"] = i + 1
        return traces, summary
    finally:
        shutil.rmtree(out, ignore_errors=True)


def main():
    import tracecheck
    from common import workdir
    repo = Path(sys.argv[1]) if len(sys.argv) > 1 else Path(os.environ.get("CFDP_REPO", "/repo"))
    traces, summary = record(repo)
    print("pytest:", summary, "| traces:", len(traces), "events:", sum(len(t["ev"]) for t in traces))
    wd = workdir("repotests")
    v = tracecheck.validate(traces, wd)
    bad = [t for t in traces if v[t["tid"]]["status"] != "ok"]
    print("conformant:", len(traces) - len(bad), "drift:", len(bad))
    for t in bad[:6]:
        print(t["test"])
        print(tracecheck.explain_drift(t, v[t["tid"]])[:1500])
    hits = [(t["test"], x) for t in traces for x in v[t["tid"]]["viol"]]
    print("monitor hits:", hits[:5])


if __name__ == "__main__":
    main()

"""Regenerates /verif/MANIFEST.json from the table below (run by hand after a check is (de)registered)."""
import json
from pathlib import Path

VERIF = Path(__file__).resolve().parent.parent
PAIR_TECH = ("TLA+ closed model (Cfdp.tla = SrcCore + DstCore transducers + faulty links + clock + users) checked by TLC; "
             "TLC-generated schedules (at least one per behavioural signature the model exhibits) replayed into the real handlers; "
             "recorded executions validated against the transducers and "
             "judged by TLA+ monitors (CfdpProps.tla) evaluated by TLC")
SOLO_TECH = ("TLA+ single-handler adversarial model (Solo.tla over the SrcCore / DstCore transducers) with the property monitor as "
             "TLC invariant of every input sequence up to the depth bound; TLC-enumerated sequences (at least one per behavioural "
             "signature of the model, then a seeded sample) replayed into the real handler; recorded executions validated against the transducers and judged by the same TLA+ monitor")
CLAIMED = {
    "C17": dict(
        text="FilestoreOps.tla is a reference model of the documented semantics of the native filestore's operations (create, delete, "
             "rename, replace, create / remove directory (recursive or not), truncate, write at offset, read at offset, size, exists, "
             "is-directory) over a tree of files and directories with the operation-specific refusal codes. TLC explores every "
             "operation sequence up to the depth bound over a small universe and checks on every transition: refused or failing "
             "operations leave the tree unchanged, success codes only when the effect happened, written data reads back and other "
             "bytes are untouched (gaps zero), the tree stays well-formed. Every distinct (tree, operation) transition is performed "
             "on a real NativeFilestore in a fresh sandbox, plus seeded random histories of 30 operations; TLC recomputes the "
             "reference result for each observed step and compares status code / exception class / data / resulting tree.",
        ref="DESIGN.md section 6 C17",
        tech="TLA+ reference file-system model checked by TLC + every model transition replayed on the real filestore + observed "
             "operations judged against the reference model by TLC (FilestoreTrace.tla)",
        note="Trusted: TLC; the sandbox snapshot. Where the documentation is silent (missing parent for rename / mkdir, operations on "
             "directories) the model records the current behaviour as the reference. list_directory is outside the statement."),
    "C20": dict(
        text="Routing.tla states the routing table; TLC checks (constant-level, complete: 8 kinds x acknowledged directive x direction x "
             "mode x 4 id widths x CRC flag, against each of 19 handler steps in both handler modes) that it agrees with the admission "
             "relations AdmitS / AdmitD of the transducers: routed to a handler => never refused as the other side's; routed to the "
             "other side => always refused with a protocol exception. Every point is built with spacepackets and sent through the "
             "real get_packet_destination; every PDU kind is offered with valid addressing to real handlers stopped after every call "
             "of nominal transfers; acknowledge_inactive_eof_pdu is called for every condition code x status x header variant; TLC "
             "judges the observed routing results, exception classes and ACK PDUs.",
        ref="DESIGN.md section 6 C20",
        tech="TLA+ routing table vs the transducers' admission relations checked completely by TLC + every point executed on the real "
             "routing helper and handlers and judged by TLC (RoutingTrace.tla)",
        note="Trusted: TLC; spacepackets PDU constructors; harness projection. The conformance of AdmitS / AdmitD with the code is "
             "established by the C10 check."),
    "C09": dict(
        text="Checksum.tla defines CRC-32 (ISO-HDLC) and CRC-32C bit-serially from their polynomials (16-bit limbs; catalogue check "
             "values asserted), the CCSDS modular word sum and the null checksum, sharing nothing with crcmod. TLC checks on the "
             "state machine of the chunked calculation that the final register equals the one-shot checksum of the prefix for "
             "every content over a 3-symbol alphabet, every prefix length and every positive chunk length (chunk independence). "
             "Every point of that model is run through the real NativeFilestore, plus seeded random byte strings (0-255, lengths "
             "0-64, all prefix classes, chunk 1..len+1 and 4096, all four types); TLC recomputes each digest and judges "
             "calculate_checksum, chunk independence and verify_checksum (accepts the value, rejects a flipped one). The EOF "
             "checksum of the source handler is judged by the C09 monitor on runs where the file grows while it is sent.",
        ref="DESIGN.md section 6 C09",
        tech="TLA+ first-principles checksum definitions + chunking state machine checked by TLC; every model point and random vectors "
             "executed on the real filestore and judged by TLC (ChecksumTrace.tla); EOF checksum monitor over recorded source runs",
        note="Trusted: TLC's integer / Bitwise operators. Exhaustive only for the 3-symbol alphabet up to length 4 (quick) / 5 (thorough); "
             "full bytes are seeded sampling. Modular checksum judged for prefix = whole file (observation F17)."),
    "C11": dict(
        text="TLC checks on the closed model with several put requests on the same handler records that, whatever drop / duplicate "
             "faults and cancel requests by either user hit the earlier transactions, a later transaction the environment leaves "
             "alone ends successfully with an identical file, like on fresh handlers (invariant LastTxnGood; C01 throughout). The "
             "multi-transaction schedules are executed on one pair of real handler objects and validated against the transducers "
             "(which carry every piece of state a handler keeps across transactions). A differential driver runs a transaction "
             "after random histories (completed, cancelled by either user, faulted to the limits, cut off and abandoned, reset) and "
             "next to busy sibling instances, and the same transaction on fresh handlers; the C11 monitor, evaluated by TLC, "
             "demands event-by-event agreement of PDUs, indications, callbacks, exceptions, public state and files.",
        ref="DESIGN.md section 6 C11", tech=PAIR_TECH + "; differential executions compared by a TLA+ monitor",
        note="Trusted: TLC; harness projection. The fresh run is given the provider value and destination file of the reused run."),
    "C16": dict(
        text="In the closed TLA+ model every file effect is an operation on the model's filestore variables (no other file state), and "
             "TLC checks C01 / DoneIsGood on it. Every schedule of the nominal configuration families (all checksum types, target "
             "shapes, metadata-only, several transactions), of K<=1 fault schedules (incl. payload corruption and rejected writes) "
             "and of all cancel points is executed twice on the real handlers - on the sandboxed NativeFilestore and on a purely "
             "in-memory VirtualFilestore whose paths do not exist on the host. Both executions are validated against the "
             "transducers, and the C16 monitor (evaluated by TLC) demands that they agree event by event, that no host path of "
             "the pretended sandbox is opened during a handler call (sys audit hook) and that the host is untouched afterwards.",
        ref="DESIGN.md section 6 C16", tech=PAIR_TECH + "; native vs in-memory filestore executions compared by a TLA+ monitor",
        note="Trusted: TLC; harness projection; the harness's in-memory VirtualFilestore; CPython audit events for open()/os.*."),
    "C04": dict(
        text="The C04 observers - expiries counted from the clock and the emitted PDUs only: a re-send or limit fault never before "
             "now - last (re-)emission >= interval; a re-send at every earlier expiry; Positive ACK Limit / NAK Limit Reached "
             "exactly at the N-th consecutive expiry without progress ('never earlier' judged against the reading with the fewest "
             "restarts, 'never later' against the one with the most); at most 2N EOF / Finished PDUs per transaction - are TLC "
             "invariants of every sequence of 400 / 1000 ms clock jumps, polls and inbound PDUs after each of the three "
             "procedures started, for limits 1-3 and distinct intervals; TLC checks on the closed model that with links falling "
             "silent at any point both handlers come to rest (liveness under fairness), except in the two waits the statement "
             "leaves unbounded. Sequences, all silent-peer cut points, K<=2 fault schedules and free-pacing simulations are "
             "executed on the real handlers with the virtual clock; conformance compares the three counters after every call.",
        ref="DESIGN.md section 6 C04", tech=SOLO_TECH + "; liveness of the closed model Cfdp.tla under fairness",
        note="Trusted: TLC; harness projection; virtual clock."),
    "C13": dict(
        text="The C13 monitor - an observer that follows the check timer from the clock (start at the EOF that found data outstanding, "
             "restart at every expiry): no Transaction-Finished at that EOF; at an expiry the transfer completes successfully iff "
             "the file matches the EOF checksum (bit-serial TLA+ CRC over the sandbox file), otherwise Check Limit Reached is "
             "declared exactly at the limit-th expiry, never earlier, and an incomplete file is never reported successful; sender "
             "with closure: Check Limit Reached at the first call after its check timer expired, not before - is a TLC invariant of "
             "every sequence of Metadata / segments in any order and subset / EOF anywhere / ticks / polls for check limits 1-3, and "
             "is evaluated on those sequences, on reordering schedules of the closed model and on random runs executed on the real "
             "handlers with the virtual clock.",
        ref="DESIGN.md section 6 C13", tech=SOLO_TECH,
        note="Trusted: TLC; harness projection; virtual clock = spacepackets.countdown.time_ms replaced by the harness."),
    "C14": dict(
        text="The C14 monitor (callback kind = the table's code for that condition, one callback per fault, transaction id of the "
             "PDUs; ignore: transaction continues; cancel: EOF(cancel) with the condition at the sender / Transaction-Finished or "
             "Finished PDU with it at the receiver; abandon: idle, nothing raised; no indication without transaction id; "
             "set_handler refuses exactly the conditions outside the table) is a TLC invariant of every input sequence on both "
             "sides under tables from {ignore, cancel, abandon}^conditions with inputs reaching every declaration site, and is "
             "evaluated on those sequences, on faulty / silent-peer two-entity schedules under random tables and on random "
             "adversarial runs executed on the real handlers; the configuration API is enumerated over every condition code.",
        ref="DESIGN.md section 6 C14", tech=SOLO_TECH,
        note="Trusted: TLC; the recording fault handler of the harness. Faults during a cancellation in progress abandon by design "
             "(exempt from the 'configured code decides' clause)."),
    "C12": dict(
        text="The C12 monitor (cancel returns true iff busy, transaction id present and equal; after a sender cancel the next PDU is "
             "EOF(Cancel Request Received) with size = bytes sent and the bit-serial TLA+ checksum of that prefix and no new file "
             "data follows; after a receiver cancel the next call issues Transaction-Finished with that condition and a Finished "
             "PDU with the local entity as fault location; EOF(cancel) finishes with the EOF's condition and the sender as fault "
             "location; the file is deleted iff disposition-on-cancellation and incomplete) is a TLC invariant of every input "
             "sequence with right / wrong-id cancels at every step on both sides, and is evaluated on all cancel points of "
             "two-entity transfers TLC enumerates, executed on the real handlers.",
        ref="DESIGN.md section 6 C12", tech=SOLO_TECH,
        note="Trusted: TLC; harness projection. Modular checksum excluded from the prefix clause unless prefix = whole file."),
    "C15": dict(
        text="The C15 monitor (disabled indications never delivered; EOF-Sent per EOF PDU, EOF-Recv per EOF accepted while receiving, "
             "File-Segment-Recv with the offset and length of each accepted File Data PDU, Metadata-Recv with the PDU's names / "
             "size / user messages / source id, Transaction with the originating id unless a proxy put response is present; "
             "causal order per transaction; transaction id of the PDUs; Transaction-Finished = Finished PDU) is a TLC invariant "
             "of every input sequence on both sides under all 16 switch settings, and is evaluated on nominal, faulty and "
             "cancelled two-entity schedules and random adversarial runs executed on the real handlers.",
        ref="DESIGN.md section 6 C15", tech=SOLO_TECH,
        note="Trusted: TLC; the recording CfdpUserBase of the harness. Demanded of executions in which every queued PDU is retrieved "
             "after each call."),
    "C05": dict(
        text="The C05 monitor - an independent write model over the whole sandbox tree (created / truncated empty at the accepted "
             "Metadata, directory targets resolved with the source base name, zero-filled writes per accepted File Data PDU, "
             "deletion only on cancel-with-disposition, nothing anywhere else, data before Metadata never written) - is a TLC "
             "invariant of every sequence of Metadata / File Data (grid, overlapping, duplicate, zero-length, beyond EOF) / EOF "
             "(right, wrong, cancel) / ACK / cancel / poll inputs up to depth 6 over DstCore in both modes and four target "
             "shapes; the sequences, seeded random and grid-driven destination runs and two-entity fault schedules are executed "
             "on a real DestHandler with a sandboxed NativeFilestore, whose tree is snapshotted after every call.",
        ref="DESIGN.md section 6 C05", tech=SOLO_TECH,
        note="Trusted: TLC; the sandbox snapshot. 'Accepted' = no exception + File-Segment-Recv indication for that PDU + write not "
             "rejected by the environment."),
    "C06": dict(
        text="The C06 monitor - an independent interval model (stored bytes, known extent, metadata seen, EOF size): every request "
             "inside the extent and disjoint from what was stored before the call, (0,0) only while metadata is missing, every "
             "deferred sequence exactly [0, EOF size) minus stored, scope enclosure, encoded length <= max packet length - is a "
             "TLC invariant of every arrival order / loss / duplication of a grid-segmented file with Metadata and EOF anywhere, "
             "polls and timer expiries, both NAK modes and 1 / 2 / many requests per PDU over DstCore; sequences, grid-driven "
             "runs answered like a lossy source and two-entity K<=2 schedules are executed on the real DestHandler.",
        ref="DESIGN.md section 6 C06", tech=SOLO_TECH,
        note="Trusted: TLC; harness projection. File Data aligned to the sender's grid (DESIGN.md reading)."),
    "C07": dict(
        text="The C07 monitor (Metadata first with true size / names / checksum type / closure; File Data consecutive from 0, "
             "non-empty, within min(configured, derived) segment length, the file's bytes, one per call; EOF with the file's size "
             "and bit-serial TLA+ checksum; equal ids and widths, mode, CRC flag, direction; packs and parses; encoded lengths "
             "equal the independent PduLayout arithmetic and respect the maximum packet length) is a TLC invariant of every "
             "put/poll sequence of 1440+ configurations over SrcCore, and is evaluated by TLC on the executions of those "
             "sequences, of fault-free two-entity schedules and of seeded lone-source runs (larger files, all widths, packet "
             "lengths at the break points) on the real SourceHandler.",
        ref="DESIGN.md section 6 C07", tech=SOLO_TECH,
        note="Trusted: TLC; the harness projection incl. pack()/PduFactory.from_raw round trip (known spacepackets parser defects "
             "normalised). Scope: no inbound PDUs before the EOF."),
    "C08": dict(
        text="The C08 monitor (per NAK-carrying call: re-sent Metadata / File Data PDUs tile the requests in order within the segment "
             "length with the file's bytes; inverted or beyond-sent requests raise InvalidNakPdu and nothing outside the file is "
             "emitted; original File Data PDUs stay consecutive, EOF unchanged) is a TLC invariant of every sequence of NAKs "
             "(valid, several requests, zero-length, inverted, beyond sent / file) x polls x ACK x Finished up to depth 6-7 over "
             "SrcCore; the sequences, seeded adversarial source runs and two-entity fault schedules are executed on the real "
             "SourceHandler, validated against the transducer and judged by the monitor.",
        ref="DESIGN.md section 6 C08", tech=SOLO_TECH,
        note="Trusted: TLC; harness projection. Bounds: files of 2-4 bytes, segment length 1-2 in the exhaustive part."),
    "C10": dict(
        text="The C10 monitor (exception class is none or one of cfdppy.exceptions; UnretrievedPdusToBeSent only with PDUs queued "
             "before the call; an admission refusal leaves state, step, progress, queue and filestore unchanged) is a TLC "
             "invariant of every input sequence from the widest universe (all PDU kinds, wrong direction / ids / sequence "
             "number / mode, odd offsets, sizes and checksums, EOF(cancel), put / cancel requests, clock jumps, rejected "
             "writes) over both transducers; the sequences plus seeded random adversarial runs (incl. unretrieved PDUs, "
             "non-default fault handlers) and two-entity fault schedules are executed on the real handlers; conformance checks "
             "the predicted exception class of every call.",
        ref="DESIGN.md section 6 C10", tech=SOLO_TECH,
        note="Trusted: TLC; harness projection (exception class and raising frame from the traceback)."),
    "C19": dict(
        text="The C19 monitor (busy handler returns false and is undisturbed; missing file / unknown destination raise the documented "
             "error and leave the handler idle; valid request on an idle handler accepted; mode and closure of every PDU from "
             "the request else the MIB; every non-final File Data PDU has exactly min(configured, PduLayout-derived) bytes; "
             "k-th transaction indication carries the k-th provider value) is a TLC invariant of every sequence of valid / "
             "premature / invalid requests x options over SrcCore; sequences, lone-source multi-transaction runs and two "
             "handlers sharing one provider are executed on the real SourceHandler.",
        ref="DESIGN.md section 6 C19", tech=SOLO_TECH,
        note="Trusted: TLC; harness projection; the counting sequence-number provider of the harness."),
    "C01": dict(
        text="TLC checks on the closed TLA+ model, in every reachable state of every schedule with up to K faults (drop, duplicate, "
             "reorder, delay, payload bit flip, rejected write; all modes, closure, NAK modes; CRC-32/CRC-32C computed bit-serially "
             "in TLA+, NULL/modular with link faults only), that a Finished indication or Finished PDU reporting success implies "
             "an identical destination file or a genuine checksum collision. All K<=1 (quick) / K<=2 (thorough) schedules and "
             "simulated free-pacing schedules are executed on the real handlers; each execution is validated against the "
             "transducers and the C01 monitor is evaluated by TLC on the observed indications, PDUs and sandbox snapshots.",
        ref="DESIGN.md section 6 C01", tech=PAIR_TECH,
        note="Trusted: TLC; the harness projection; corruption is injected past the PDU CRC-16 (worst case). Bounds: 1-byte "
             "segments, 0..3 segments, K <= 3."),
    "C02": dict(
        text="TLC checks the closed model with K = 0 for each configuration of a product (mode, closure, checksum type, PDU CRC, id / "
             "sequence widths, NAK mode, segment length, maximum packet length at the break points, file size relative to the "
             "segment length, destination file / existing file / directory, metadata-only): no exception, no fault callback, one "
             "successful Finished indication per side, identical file, and termination (liveness). The canonical run and simulated "
             "pacings of every configuration are executed on the real handlers, validated against the transducers (every PDU "
             "field and encoded length, indication, counter, file byte) and judged by the C02 monitor.",
        ref="DESIGN.md section 6 C02", tech=PAIR_TECH,
        note="Trusted: TLC; the harness projection. The configuration product (147456 points x size classes) is sampled by seed: "
             "240 points quick, 6000 thorough."),
    "C03": dict(
        text="TLC checks on the closed TLA+ model that every schedule with at most K drop/duplicate/reorder/delay faults (K < every "
             "limit; files of 0..4 one-byte segments; both NAK modes, closure on/off; canonical and free pacing) ends with both "
             "handlers idle, successful Finished indications and an identical file, and that it does end (liveness under "
             "fairness). Every K<=1 (quick) / K<=2 (thorough) schedule TLC enumerates, plus simulated free-pacing schedules, is "
             "executed on the real handlers; each execution is replayed through the transducers (clause-by-clause conformance) "
             "and the C03 monitor is evaluated by TLC on the observed values.",
        ref="DESIGN.md section 6 C03", tech=PAIR_TECH,
        note="Trusted: TLC; the harness projection (world.py); the entity layer that answers closed transactions is part of the "
             "environment model. Known finding F01 (single lost ACK(EOF) is not recovered) is reported as KNOWN-FINDING."),
    "C18": dict(
        text="TLC checks the ADT model LostSeg.tla exhaustively (ghost byte set = denotation, ordering, coalescing, removal report, "
             "straddle refusal) for offsets 0..MaxOff; every transition of that model is executed on the real LostSegmentTracker "
             "and, with seeded random histories over offsets 0..40, judged by the TLA+ monitor LostSegTrace.tla on the observed values.",
        ref="DESIGN.md section 6 C18",
        tech="TLA+ ADT model checked by TLC + spec->code replay of every model transition + code->spec trace validation by TLC",
        note="Trusted: TLC, the JSON projection of the tracker's public dict; operations only under the statement's preconditions."),
}
PENDING = "check under construction in this round (specification planned in DESIGN.md section 6); not claimed yet"
NA = {}


def main():
    ids = [json.loads(l)["id"] for l in (VERIF / "properties.jsonl").read_text().splitlines() if l.strip()]
    checks = []
    for p in ids:
        if p in CLAIMED:
            c = CLAIMED[p]
            checks.append(dict(property_id=p, quick_cmd=f"./check {p} --tier quick", thorough_cmd=f"./check {p} --tier thorough",
                               evidence_file=f"/verif/evidence/{p}.json", replay_cmd_template=f"./check {p} --replay {{path}}",
                               engine="tlc", level_claimed=dict(category=c.get("cat", "model_checking"), text=c["text"], design_ref=c["ref"]),
                               level_note=c["note"], technique=c["tech"]))
    m = dict(
        version=1, setup_cmd="cd /verif && ./setup.sh",
        hooks=dict(guard="CFDP_PY_VERIF",
                   enable="no source hooks: the harness supplies recording collaborator objects and a virtual clock from outside; "
                          "./check sets CFDP_PY_VERIF=1 for uniformity",
                   baseline_off_cmd="cd /repo && /venv/bin/python -m pytest -ra -q -p no:cacheprovider --timeout=900 --continue-on-collection-errors",
                   source_commits=[], add_only=True),
        engines=[dict(name="tlc", path="/usr/local/bin/tlc", serves_properties=sorted(CLAIMED),
                      kind_free_text="TLC 1.8.0 explicit-state model checker; also used as evaluator of TLA+ monitors over "
                                     "recorded implementation traces")],
        checks=checks,
        not_applicable=[dict(property_id=p, reason=NA.get(p, PENDING)) for p in ids if p not in CLAIMED],
        notes="Model-based verification with an explicit TLA+ specification; see DESIGN.md.")
    (VERIF / "MANIFEST.json").write_text(json.dumps(m, indent=1) + "\n")
    print("claimed:", sorted(CLAIMED))


if __name__ == "__main__":
    main()

"""Two-entity executions of the real handlers.

* run_hist: replays a behaviour of the closed TLA+ model (spec/Cfdp.tla) action by action -- the schedules TLC
  enumerates or simulates -- and then lets the entity loop run on (canonical pacing, no further faults) until
  both handlers are at rest, so that every recorded execution is complete.
* the entity layer (closed transactions are answered by the entity, not by the handler) is the one of the model.

Nothing in here judges a property."""
from __future__ import annotations

import copy

from spacepackets.cfdp.pdu import AckPdu, DirectiveType, TransactionStatus

from world import Clock, World

LINKS = {0: "sd", 1: "ds"}


class Pair:
    def __init__(self, cfg: dict, keep_clock: bool = False):
        self.w = World(cfg, keep_clock=keep_clock)
        self.w.pair = True
        self.q = {"sd": [], "ds": []}
        self.cut: set[str] = set()
        self.held = {"sd": [], "ds": []}   # one PDU per link taken out of the link, to be put back later (delay / reordering)
        self.d_started = False
        self.nfaults = 0
        self.ncorrupt = 0
        self.put_ok = False
        self.txn = 0
        self.turn = "S"     # canonical entity loop: whose turn it is (kept across run_on calls)
        self.calm = 0

    # ---- model predicates on the real objects ----
    def src_closed(self) -> bool:
        return self.w.src.state.name == "IDLE"

    def dst_closed(self) -> bool:
        return self.d_started and self.w.dst.state.name == "IDLE"

    def quiet(self) -> bool:
        return not self.q["sd"] and not self.q["ds"] and not self.held["sd"] and not self.held["ds"]

    def done(self) -> bool:
        return self.src_closed() and self.w.dst.state.name == "IDLE" and self.quiet()

    def send(self, link: str, pdus) -> None:
        if link not in self.cut:
            self.q[link] += pdus

    # ---- actions of the model ----
    def put(self, gap: int = 0) -> None:
        """The next put request (the first one, then those of cfg['more']) after a pause of gap ms."""
        from world import MODE
        over = {}
        # C11: a put request of the HISTORY may address the same remote entity with another width of the entity-id field
        dw = (self.w.cfg["more"][self.txn - 1] if self.txn >= 1 else self.w.cfg).get("putDIdW")
        if self.txn >= 1:
            m = self.w.cfg["more"][self.txn - 1]
            over = dict(trans_mode=None if m["putMode"] == "none" else MODE[m["putMode"]],
                        closure_requested=None if m["putClosure"] == "none" else m["putClosure"] == "true")
            Clock.now += gap
        if dw:
            from spacepackets.util import ByteFieldGenerator
            over["destination_id"] = ByteFieldGenerator.from_int(dw, self.w.cfg["dId"])
        e = self.w.call("S", "put", self.w.put_request(**over))
        self.put_ok = e["ret"] == "true"
        self.txn += 1
        self.d_started = False
        self.turn, self.calm = "S", 0

    def more_to_put(self) -> bool:
        return self.txn < 1 + len(self.w.cfg["more"])

    def src_call(self, deliver: bool) -> dict:
        pkt = self.q["ds"].pop(0) if deliver and self.q["ds"] else None
        e = self.w.call("S", "fsm", pkt)
        self.send("sd", e["_pdus"])
        return e

    def dst_call(self, deliver: bool, wrej: bool = False) -> dict:
        pkt = self.q["sd"].pop(0) if deliver and self.q["sd"] else None
        e = self.w.call("D", "fsm", pkt, wrej=wrej)
        if wrej:
            self.nfaults += 1
            self.ncorrupt += 1
        self.send("ds", e["_pdus"])
        if self.w.dst.state.name == "BUSY":
            self.d_started = True
        return e

    def src_entity(self) -> None:
        if not self.q["ds"]:
            return
        p = self.q["ds"].pop(0)
        ans = "none"
        if type(p).__name__ == "FinishedPdu":
            conf = copy.deepcopy(p.pdu_header.pdu_conf)
            self.send("sd", [AckPdu(conf, DirectiveType.FINISHED_PDU, p.condition_code, TransactionStatus.TERMINATED)])
            ans = "ACK_FIN"
        self.w.env("Se", pdu=self.w.absp(p, observed=False), ans=ans)

    def dst_entity(self) -> None:
        if not self.q["sd"]:
            return
        from cfdppy.handler.dest import acknowledge_inactive_eof_pdu
        p = self.q["sd"].pop(0)
        ans = "none"
        if type(p).__name__ == "EofPdu" and p.pdu_header.transmission_mode.name == "ACKNOWLEDGED":
            self.send("ds", [acknowledge_inactive_eof_pdu(copy.deepcopy(p), TransactionStatus.TERMINATED)])
            ans = "ACK_EOF"
        self.w.env("De", pdu=self.w.absp(p, observed=False), ans=ans)

    def fault(self, kind: str, link: str) -> None:
        q = self.q[link]
        ok = False
        if kind == "drop" and q:
            q.pop(0)
            ok = True
        elif kind == "dup" and q:
            q.insert(0, copy.deepcopy(q[0]))
            ok = True
        elif kind == "swap" and len(q) >= 2:
            q[0], q[1] = q[1], q[0]
            ok = True
        elif kind == "flip" and q and type(q[0]).__name__ == "FileDataPdu" and len(q[0].file_data) > 0:
            d = bytearray(q[0].file_data)
            d[0] ^= 1
            q[0] = _with_data(self.w, q[0], bytes(d))
            self.ncorrupt += 1
            ok = True
        elif kind == "hold" and q and not self.held[link]:
            self.held[link] = [q.pop(0)]
            ok = True
        elif kind == "release":
            if self.held[link]:
                q[0:0] = self.held[link]
                self.held[link] = []
            self.w.env(kind, link=link, applied=True)
            return
        elif kind == "cut":
            self.cut.add(link)
            q.clear()
            ok = True
        if ok and kind != "cut":
            self.nfaults += 1
        self.w.env(kind, link=link, applied=ok)

    def tick(self, dt: int) -> None:
        self.nfaults += len(self.q["sd"]) + len(self.q["ds"])   # time passing delays every PDU in flight
        Clock.now += dt
        self.w.env("tick", dt=dt)

    def cancel(self, side: str) -> None:
        e = self.w.call(side, "cancel", True)
        self.send("sd" if side == "S" else "ds", e["_pdus"])
        if side == "D" and self.w.dst.state.name == "BUSY":
            self.d_started = True

    def step(self, a: str, x: int) -> None:
        if a in ("S", "Se"):
            self.turn = "D"
        elif a in ("D", "De"):
            self.turn = "S"
        if a == "S":
            self.src_call(x == 1)
        elif a == "D":
            self.dst_call(x >= 1, wrej=(x == 2))
        elif a == "Se":
            self.src_entity()
        elif a == "De":
            self.dst_entity()
        elif a in ("drop", "dup", "swap", "flip", "cut", "hold", "release"):
            self.fault(a, LINKS[x])
        elif a == "tick":
            self.tick(x)
        elif a == "cancelS":
            self.cancel("S")
        elif a == "cancelD":
            self.cancel("D")
        elif a == "put":
            self.put(x)
        else:
            raise ValueError(a)

    def _quiescent(self, e: dict, delivered: bool) -> bool:
        return not delivered and not e["_pdus"] and e["exc"] == "none" and e["pre"] == e["post"] and not e["ind"] and not e["flt"]

    def step_canon(self, a: str, x: int) -> None:
        """One recorded action under the canonical pacing rule (see run_hist)."""
        if not hasattr(self, "settled"):
            self.settled = set()
        if a in ("S", "Se"):
            if self.src_closed():            # closed transaction: the entity layer answers whatever arrives
                if self.q["ds"]:
                    self.src_entity()
                self.settled |= {"S"}
            else:
                deliver = bool(self.q["ds"])
                e = self.src_call(deliver)
                self.settled = (self.settled | {"S"}) if self._quiescent(e, deliver) else (self.settled - {"S"})
            self.turn = "D"
        elif a in ("D", "De"):
            if self.dst_closed():
                if self.q["sd"]:
                    self.dst_entity()
                self.settled |= {"D"}
            else:
                deliver = bool(self.q["sd"])
                wrej = x == 2 and deliver and type(self.q["sd"][0]).__name__ in ("FileDataPdu", "MetadataPdu")
                e = self.dst_call(deliver, wrej=wrej)
                self.settled = (self.settled | {"D"}) if self._quiescent(e, deliver) else (self.settled - {"D"})
            self.turn = "S"
        elif a == "tick":
            # time passes only when calm: drain the links and poll both handlers until nothing moves (bounded)
            for _ in range(60):
                if not self.q["sd"] and not self.q["ds"] and self.settled >= {"S", "D"}:
                    break
                self.step_canon(self.turn, 0)
            self.tick(x)
            self.settled = set()
        else:
            if a in ("cancelS", "cancelD", "put"):
                self.settled = set()
            self.step(a, x)

    # ---- canonical entity loop (the model's Pacing = "canon" without faults) ----
    def run_on(self, max_turns: int = 400, idle_ticks: int = 12, script: dict | None = None, one_txn: bool = False, sibling=None) -> bool:
        """script: {(link, n): kind} faults applied to the n-th PDU delivered from that link during this call (C11);
        one_txn: return when the current transaction is over; sibling: callable stepped between turns (C11)."""
        cfg = self.w.cfg
        script = dict(script or {})
        seen = {"sd": 0, "ds": 0}
        dt = max(cfg["ackInt"], cfg.get("ackIntD") or 0, cfg["nakInt"], cfg["chkInt"])
        turn, calm, idle = self.turn, self.calm, 0
        for _ in range(max_turns):
            if sibling is not None:
                sibling()
            for link in ("sd", "ds"):       # scripted faults hit the PDU that is delivered next on that link
                if self.q[link] and (link, seen[link]) in script and turn == ("D" if link == "sd" else "S"):
                    self.fault(script.pop((link, seen[link])), link)
            if self.done():
                if not self.more_to_put() or one_txn:
                    return True
                self.put(self.w.cfg["more"][self.txn - 1]["gap"])
                turn, calm, idle = "S", 0, 0
                self.turn, self.calm = turn, calm
                continue
            for link in ("sd", "ds"):       # a PDU still held back when the schedule is over is delivered now
                if self.held[link] and turn == ("D" if link == "sd" else "S"):
                    self.fault("release", link)
            if self.quiet() and calm >= 2:
                if idle >= idle_ticks:
                    return False
                self.tick(dt)
                idle += 1
                calm = 0
                self.calm = 0
                continue
            n_ev = len(self.w.ev)
            if turn == "S":
                seen["ds"] += 1 if self.q["ds"] else 0
                if self.src_closed():
                    busy = bool(self.q["ds"])
                    self.src_entity()
                else:
                    d = bool(self.q["ds"])
                    e = self.src_call(d)
                    busy = d or bool(e["out"]) or e["pre"] != e["post"]
            else:
                seen["sd"] += 1 if self.q["sd"] else 0
                if self.dst_closed():
                    busy = bool(self.q["sd"])
                    self.dst_entity()
                else:
                    d = bool(self.q["sd"])
                    e = self.dst_call(d)
                    busy = d or bool(e["out"]) or e["pre"] != e["post"]
            turn = "D" if turn == "S" else "S"
            if busy:
                calm, idle = 0, 0
            else:
                calm = min(calm + 1, 2)
            self.turn, self.calm = turn, calm
        return self.done() and not self.more_to_put()


def _with_data(w: World, fd, data: bytes):
    a = w.absp(fd, observed=False)
    a["data"] = list(data)
    return w.conc(a)


def run_hist(cfg: dict, hist: list, tid: int, props: list[str], cont: bool = True, pacing: str = "canon") -> dict:
    """hist: sequence of [a, x] actions of a behaviour of spec/Cfdp.tla (after Init = the accepted put request).
    pacing "free": every action is replayed literally.  pacing "canon": the recorded faults, cancel requests, put requests and
    clock steps are replayed where they were recorded, but handler calls follow the canonical pacing RULE instead of the
    recorded flags - a call delivers a PDU whenever one is waiting, and before time passes both links are drained and both
    handlers polled until nothing moves.  On code that conforms to the specification this is the recorded behaviour itself;
    on code that does not (a PDU more or less than the model sent), the run is still one of the schedules the properties
    quantify over (at most K faults, no PDU delayed by the replay itself), so its verdict means something."""
    p = Pair(cfg)
    try:
        p.put()
        for a, x in hist:
            if pacing == "canon":
                p.step_canon(a, x)
            else:
                p.step(a, x)
        done = p.run_on() if cont else (p.done() and not p.more_to_put())
        tr = p.w.trace(tid, "pair", sched=[[a, x] for a, x in hist])
        tr.update(props=props, nfaults=p.nfaults, ncorrupt=p.ncorrupt, done=done, cuts=sorted(p.cut), pacing=pacing)
        return tr
    finally:
        p.w.cleanup()

"""Shared plumbing for all checks: TLC invocation, verdict parsing, evidence, known findings.

Everything here is orchestration only.  Verdicts about properties are always produced by TLC
(model checking of the MC_* instances, and evaluation of the monitors of the TLA+ specification over
executions recorded from the real code); Python never decides a property.
"""
from __future__ import annotations

import json
import os
import re
import shutil
import subprocess
import sys
import time
from pathlib import Path

VERIF = Path(__file__).resolve().parent.parent
SPEC = VERIF / "spec"
_OUT = Path(os.environ.get("CFDP_VERIF_OUT", str(VERIF)))   # developer runs (mutants.py) write elsewhere
BUILD = _OUT / "build"
EVID = _OUT / "evidence"
REPLAYS = _OUT / "replays"
REPO = Path(os.environ.get("CFDP_REPO", "/repo"))
TLA_CP = "/opt/veriftools/tla/tla2tools.jar:/opt/veriftools/tla/CommunityModules-deps.jar"


class MachineryError(Exception):
    """TLC/SANY failure, unparsable output, vacuous coverage ... -> exit 2, never a verdict."""


def seed() -> int:
    try:
        return int(os.environ.get("VERIF_SEED", "0"))
    except ValueError:
        return 0


def workdir(check_id: str) -> Path:
    d = BUILD / check_id
    if d.exists():
        shutil.rmtree(d)
    d.mkdir(parents=True)
    return d


_STATES_RE = re.compile(r"(\d+) states generated, (\d+) distinct states found, (\d+) states left on queue")


class TlcResult:
    def __init__(self, out: str, rc: int, wall: float):
        self.out = out
        self.rc = rc
        self.wall = wall
        m = None
        for m in _STATES_RE.finditer(out):
            pass
        self.generated = int(m.group(1)) if m else 0
        self.distinct = int(m.group(2)) if m else 0
        self.queue = int(m.group(3)) if m else 0
        self.completed = "Model checking completed. No error has been found." in out
        self.violated = re.findall(r"Invariant (\w+) is violated", out) + re.findall(
            r"(?:Temporal properties were violated|Action property (\w+) is violated)", out
        )
        if not self.violated and re.search(r"(?i)temporal propert[^\n]*violated|is violated", out):
            self.violated = ["temporal"]
        self.violated = [v or "temporal" for v in self.violated]
        self.error = "Error:" in out and not self.violated
        self.tagfile = None      # file with the printed schedules / sequences (run_tlc)

    def coverage(self) -> dict[str, int]:
        """Per-action distinct/total counts from -coverage output: <Action line ..>: distinct:total"""
        cov = {}
        for m in re.finditer(r"<(\w+) line \d+, col \d+ to line \d+, col \d+ of module (\w+)>: (\d+):(\d+)", self.out):
            cov[m.group(1)] = cov.get(m.group(1), 0) + int(m.group(4))
        return cov


def run_tlc(
    module: str,
    cfg: str | None = None,
    *,
    wd: Path,
    workers: int | str = 1,
    env: dict | None = None,
    args: list[str] | None = None,
    timeout: int = 3600,
    specdir: Path = SPEC,
    heap: str = "8g",
    stack: str | None = None,
    deque: bool = False,
    lib: Path | None = None,
) -> TlcResult:
    """Run TLC on specdir/module.tla with config cfg (default module.cfg).  Output is captured."""
    import uuid
    meta = wd / ("meta_" + module + "_" + uuid.uuid4().hex[:12])
    cmd = ["java", "-XX:+UseSerialGC" if str(workers) == "1" else "-XX:+UseParallelGC", f"-Xmx{heap}"]
    if str(workers) == "1":
        # single-worker runs are the (many, short) trace validators: C1 only and two compiler threads - less JIT work per JVM
        cmd += ["-XX:TieredStopAtLevel=1", "-XX:CICompilerCount=1"]
    if stack:
        cmd.append(f"-Xss{stack}")
    if deque:
        cmd.append("-Dtlc2.tool.queue.IStateQueue=StateDeque")
    if lib:
        cmd.append(f"-DTLA-Library={lib}")
    # TLC leaves temporary files (extracted standard modules) in java.io.tmpdir at every start: keep them in the work
    # directory, which is removed at the end of the check, instead of /tmp
    jtmp = wd / "jtmp"
    jtmp.mkdir(parents=True, exist_ok=True)
    cmd.append(f"-Djava.io.tmpdir={jtmp}")
    cmd += ["-cp", TLA_CP, "tlc2.TLC", "-workers", str(workers), "-metadir", str(meta), "-noGenerateSpecTE"]
    if cfg:
        cmd += ["-config", cfg]
    cmd += (args or []) + [module + ".tla"]
    e = dict(os.environ)
    e.update(env or {})
    t0 = time.time()
    # TLC's output goes to a file: the printed schedules / input sequences (one quoted string per line, millions of lines in
    # the thorough tier) stay on disk (TlcResult.tagfile) and are sampled from there; everything else is TlcResult.out
    rawfile = wd / f"{module}.{uuid.uuid4().hex[:8]}.tlcout"
    timed_out = False
    with open(rawfile, "w") as fo:
        proc = subprocess.Popen(cmd, cwd=specdir, env=e, stdout=fo, stderr=subprocess.STDOUT, text=True)
        try:
            rc = proc.wait(timeout=timeout)
        except subprocess.TimeoutExpired:
            proc.kill()
            proc.wait()
            rc, timed_out = 124, True
    shutil.rmtree(meta, ignore_errors=True)
    tagfile = wd / (rawfile.name + ".tagged")
    keep: list[str] = []
    ntag = 0
    with open(rawfile, errors="replace") as fi, open(tagfile, "w") as ft:
        for line in fi:
            if line.startswith(TAGGED):
                ft.write(line)
                ntag += 1
            else:
                keep.append(line)
    rawfile.unlink()
    out = "".join(keep) + ("\nTLC-TIMEOUT" if timed_out else "")
    res = TlcResult(out, rc, time.time() - t0)
    if ntag:
        res.tagfile = tagfile
    else:
        tagfile.unlink()
    return res


TAGGED = ('"SOLO', '"SCHED', '"VSOLO')


def tagged_lines(r: "TlcResult", tag: str, limit: int | None = None, rng=None, dedupe: bool = False) -> tuple[list[str], int]:
    """The lines `"<tag>...` TLC printed (PrintT(tag \\o [signature \\o "|"] \\o ToJson(v)): one quoted string per line), read
    from the file they were kept in; optionally without duplicates and as a seeded sample of `limit`.  When the lines carry a
    behavioural signature (text between the tag and "|"), the sample is coverage-guided: one line of every distinct signature
    first (a uniform choice of signatures if there are more than `limit`), the rest uniformly.
    -> (lines, number before sampling); tagged_lines.signatures = (distinct, covered by the sample)"""
    import hashlib
    tagged_lines.signatures = (0, 0)
    f = getattr(r, "tagfile", None)
    if f is None:
        return [], 0
    pre = '"' + tag
    idx: list[int] = []
    groups: dict[bytes, list[int]] = {}
    seen: set[bytes] = set()
    with open(f) as fi:
        for i, line in enumerate(fi):
            if not line.startswith(pre):
                continue
            if dedupe:
                h = hashlib.md5(line.encode()).digest()
                if h in seen:
                    continue
                seen.add(h)
            idx.append(i)
            bar, brace = line.find("|"), line.find("{")
            if 0 < bar < brace:
                groups.setdefault(hashlib.md5(line[len(pre):bar].encode()).digest(), []).append(i)
    total = len(idx)
    if limit is not None and rng is not None and total > limit:
        if groups:
            keys = sorted(groups)
            if len(keys) > limit:
                keys = rng.sample(keys, limit)
            chosen = {rng.choice(groups[k]) for k in keys}
            rest = [i for i in idx if i not in chosen]
            if len(chosen) < limit:
                chosen.update(rng.sample(rest, limit - len(chosen)))
            tagged_lines.signatures = (len(groups), len(keys))
            idx = sorted(chosen)
        else:
            idx = sorted(rng.sample(idx, limit))
    elif groups:
        tagged_lines.signatures = (len(groups), len(groups))
    want = set(idx)
    out = []
    with open(f) as fi:
        for i, line in enumerate(fi):
            if i in want:
                out.append(line)
    return out, total

def tla_chunks(txt: str, tag: str) -> list[str]:
    """All `<< "TAG", ... >>` tuples printed by PrintT (possibly wrapped over lines), by bracket matching."""
    res = []
    pat = re.compile(r'<<\s*"' + re.escape(tag) + '"')
    i = 0
    while True:
        m = pat.search(txt, i)
        if not m:
            break
        k = m.start()
        d = 0
        n = len(txt)
        while k < n:
            if txt.startswith("<<", k):
                d += 1
                k += 2
            elif txt.startswith(">>", k):
                d -= 1
                k += 2
                if d == 0:
                    break
            elif txt[k] == '"':
                k += 1
                while k < n and txt[k] != '"':
                    k += 2 if txt[k] == "\\" else 1
                k += 1
            else:
                k += 1
        res.append(txt[m.start():k])
        i = k
    return res


# ---- a small parser for TLC value syntax (as printed by PrintT) -> Python -----------------------
class _P:
    def __init__(self, s: str):
        self.s = s
        self.i = 0

    def ws(self):
        while self.i < len(self.s) and self.s[self.i] in " \t\r\n":
            self.i += 1

    def val(self):
        self.ws()
        s = self.s
        if s.startswith("<<", self.i):
            self.i += 2
            out = []
            self.ws()
            if s.startswith(">>", self.i):
                self.i += 2
                return out
            while True:
                out.append(self.val())
                self.ws()
                if s.startswith(">>", self.i):
                    self.i += 2
                    return out
                assert s[self.i] == ",", (s[self.i:self.i + 30])
                self.i += 1
        if s[self.i] == "{":
            self.i += 1
            out = []
            self.ws()
            if s[self.i] == "}":
                self.i += 1
                return out
            while True:
                out.append(self.val())
                self.ws()
                if s[self.i] == "}":
                    self.i += 1
                    return out
                assert s[self.i] == ",", (s[self.i:self.i + 30])
                self.i += 1
        if s[self.i] == "[":
            self.i += 1
            out = {}
            self.ws()
            while True:
                self.ws()
                m = re.compile(r"(\w+)\s*\|->").match(s, self.i)
                assert m, s[self.i:self.i + 40]
                self.i = m.end()
                out[m.group(1)] = self.val()
                self.ws()
                if s[self.i] == "]":
                    self.i += 1
                    return out
                assert s[self.i] == ",", (s[self.i:self.i + 30])
                self.i += 1
        if s[self.i] == "(":
            # function printed as (k :> v @@ k :> v)
            self.i += 1
            out = {}
            while True:
                k = self.val()
                self.ws()
                assert s.startswith(":>", self.i)
                self.i += 2
                out[str(k)] = self.val()
                self.ws()
                if s[self.i] == ")":
                    self.i += 1
                    return out
                assert s.startswith("@@", self.i)
                self.i += 2
        if s[self.i] == '"':
            j = self.i + 1
            buf = []
            while s[j] != '"':
                if s[j] == "\\":
                    j += 1
                buf.append(s[j])
                j += 1
            self.i = j + 1
            return "".join(buf)
        m = re.compile(r"-?\d+").match(s, self.i)
        if m:
            self.i = m.end()
            return int(m.group(0))
        m = re.compile(r"TRUE|FALSE").match(s, self.i)
        if m:
            self.i = m.end()
            return m.group(0) == "TRUE"
        m = re.compile(r"\w+").match(s, self.i)
        if m:
            self.i = m.end()
            return m.group(0)
        raise AssertionError("cannot parse TLA value at: " + s[self.i:self.i + 60])


def parse_tla(s: str):
    return _P(s).val()


# ---- known findings -------------------------------------------------------------------------------
def load_known() -> list[dict]:
    f = VERIF / "known_findings.json"
    if not f.exists():
        return []
    return json.loads(f.read_text()).get("findings", [])


def match_known(prop: str, rec: dict, known: list[dict]) -> dict | None:
    """rec: flat violation record produced by a TLA+ monitor.  A finding matches iff it is open, is for
    this property and every field of its signature equals the record's field."""
    for k in known:
        if k.get("property") != prop or k.get("status", "open") != "open":
            continue
        sig = k.get("signature", {})
        if all(str(rec.get(f)) == str(v) for f, v in sig.items()):
            return k
    return None


# ---- evidence -------------------------------------------------------------------------------------
def write_evidence(prop: str, tier: str, level: str, coverage: dict, wall: float, violations: int,
                   assumptions: list[str] | None = None, extra: dict | None = None) -> None:
    EVID.mkdir(parents=True, exist_ok=True)
    ev = {
        "property_id": prop,
        "tier": tier,
        "seed": seed(),
        "level": level,
        "coverage": coverage,
        "assumptions": assumptions or [],
        "wall_s": round(wall, 2),
        "violations": violations,
    }
    if extra:
        ev.update(extra)
    (EVID / f"{prop}.json").write_text(json.dumps(ev, indent=1, sort_keys=True) + "\n")


def save_replay(prop: str, name: str, obj) -> Path:
    REPLAYS.mkdir(parents=True, exist_ok=True)
    p = REPLAYS / f"{prop}_{name}.json"
    p.write_text(json.dumps(obj, indent=1))
    return p


class Outcome:
    """Collects the verdict of one check run and turns it into stdout lines + exit code."""

    def __init__(self, prop: str):
        self.prop = prop
        self.known = load_known()
        self.violations: list[tuple[dict, Path | None]] = []
        self.known_hits: dict[str, int] = {}
        self.drift: list[dict] = []
        self.notes: list[str] = []

    def monitor_hit(self, rec: dict, replay_obj=None, name: str | None = None) -> None:
        k = match_known(self.prop, rec, self.known)
        if k is not None:
            self.known_hits[k["id"]] = self.known_hits.get(k["id"], 0) + 1
            return
        path = None
        if len(self.violations) < 5 and replay_obj is not None:
            path = save_replay(self.prop, name or f"v{len(self.violations)}", {"violation": rec, "trace": replay_obj})
        self.violations.append((rec, path))

    def finish(self) -> int:
        for k in self.known:
            if k["id"] in self.known_hits:
                print(f"KNOWN-FINDING: property={self.prop} {k['id']}: {k['what']} (seen {self.known_hits[k['id']]}x)")
        if self.drift:
            print(f"DRIFT: {len(self.drift)} recorded executions differ from the precise specification in some clause "
                  f"(no property monitor is false for them); first: {json.dumps(self.drift[0])[:400]}")
        for rec, path in self.violations[:5]:
            print(f"VIOLATION property={self.prop} replay={path} :: {json.dumps(rec)[:600]}")
        if len(self.violations) > 5:
            print(f"... and {len(self.violations) - 5} more violations of {self.prop}")
        for n in self.notes:
            print(n)
        return 1 if self.violations else 0

---- MODULE PduLayout ----
(***************************************************************************)
(* Encoded lengths of CFDP PDUs re-derived from CCSDS 727.0-B-5 (section   *)
(* 5), independently of the spacepackets arithmetic the handlers call.     *)
(* h: header record [dir, mode, crc, lf, sw, sv, dw, dv, qw, qv]           *)
(***************************************************************************)
EXTENDS Naturals, Sequences
PlMin(a, b) == IF a < b THEN a ELSE b
HeaderLen(h) == 4 + h.sw + h.dw + h.qw          \* fixed part 4 octets + both entity ids + sequence number
Fss(h) == IF h.lf THEN 8 ELSE 4                  \* file-size sensitive fields
CrcLen(h) == IF h.crc THEN 2 ELSE 0              \* optional CRC-16 trailer
LenFD(h, n) == HeaderLen(h) + Fss(h) + n + CrcLen(h)      \* no segment metadata
LenEOF(h, flocLen) == HeaderLen(h) + 1 + 1 + 4 + Fss(h) + (IF flocLen >= 0 THEN 2 + flocLen ELSE 0) + CrcLen(h)
LenACK(h) == HeaderLen(h) + 1 + 2 + CrcLen(h)
LenNAK(h, nreq) == HeaderLen(h) + 1 + 2 * Fss(h) + nreq * 2 * Fss(h) + CrcLen(h)
LenFIN(h, flocLen) == HeaderLen(h) + 1 + 1 + (IF flocLen >= 0 THEN 2 + flocLen ELSE 0) + CrcLen(h)
\* Metadata without the bytes of the two file names (the harness subtracts them: sandbox paths vary)
SumOpts(opts) == LET RECURSIVE S(_) S(i) == IF i > Len(opts) THEN 0 ELSE 2 + Len(opts[i].v) + S(i + 1) IN S(1)
LenMD0(h, opts) == HeaderLen(h) + 1 + 1 + Fss(h) + 1 + 1 + SumOpts(opts) + CrcLen(h)
\* largest file-data segment / largest number of segment requests that respect a maximum packet length
MaxSegLen(h, maxPkt) == maxPkt - (HeaderLen(h) + Fss(h) + CrcLen(h))
MaxNakSegs(h, maxPkt) == (maxPkt - (HeaderLen(h) + 1 + 2 * Fss(h) + CrcLen(h))) \div (2 * Fss(h))
====

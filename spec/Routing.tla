---- MODULE Routing ----
(***************************************************************************)
(* C20: the routing helper (handler/common.py get_packet_destination), the *)
(* admission checks of both handlers and the helper that acknowledges an   *)
(* EOF PDU of an inactive transaction.                                     *)
(* Route: the statement's table.  The model side (RoutingMC) checks that   *)
(* Route agrees with the admission relations AdmitS / AdmitD of the        *)
(* transducers over the full finite space; the trace side (RoutingTrace)   *)
(* judges what the real functions and handlers did for every point.        *)
(***************************************************************************)
EXTENDS Naturals, Sequences, FiniteSets
Kinds == {"FD", "MD", "EOF", "PROMPT", "ACK", "FIN", "NAK", "KA"}
\* ACKs are routed by the directive they acknowledge
Route(kind, acked) ==
  CASE kind \in {"FD", "MD", "EOF", "PROMPT"} -> "D"
    [] kind \in {"FIN", "NAK", "KA"} -> "S"
    [] kind = "ACK" /\ acked = "FIN" -> "D"
    [] kind = "ACK" /\ acked = "EOF" -> "S"
    [] OTHER -> "error"
ProtocolRefusals == {"InvalidPduDirection", "InvalidSourceId", "InvalidDestinationId", "InvalidTransactionSeqNum", "NoRemoteEntityCfgFound",
                     "InvalidPduForSourceHandler", "InvalidPduForDestHandler", "PduIgnoredForSource", "PduIgnoredForDest"}
WrongSide == {"InvalidPduForSourceHandler", "InvalidPduForDestHandler"}
NonActive == {"UNDEFINED", "TERMINATED", "UNRECOGNIZED"}
====

---- MODULE FilestoreTrace ----
(***************************************************************************)
(* C17, code -> spec: operations performed on a real NativeFilestore       *)
(* (sandbox tree before, operation, status code / exception / data, tree   *)
(* after) are judged against the reference model FilestoreOps.             *)
(***************************************************************************)
EXTENDS FilestoreOps, TLC, Json, IOUtils
Recs == JsonDeserialize(IOEnv.TRACE_FILE)
VARIABLES i
AsSet(q) == { q[k] : k \in DOMAIN q }
Clauses(r) ==
  LET e == Apply(AsSet(r.pre), r.op) IN
  (IF r.exc # e.exc THEN {"exception-differs-from-the-reference-model"} ELSE {})
  \cup (IF r.exc = "none" /\ e.exc = "none" /\ r.ret # e.ret THEN {"status-code-differs-from-the-reference-model"} ELSE {})
  \cup (IF AsSet(r.post) # e.tree THEN {"tree-differs-from-the-reference-model"} ELSE {})
  \cup (IF r.exc = "none" /\ e.exc = "none" /\ r.op.op \in {"read_data", "file_size"} /\ ~IsDir(AsSet(r.pre), r.op.p) /\ r.data # e.data THEN {"data-differs-from-the-reference-model"} ELSE {})
Init == i = 1
Next == /\ i <= Len(Recs) /\ PrintT(<<"VERDICT", Recs[i].id, Clauses(Recs[i])>>) /\ i' = i + 1
Spec == Init /\ [][Next]_i
====

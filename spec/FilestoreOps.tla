---- MODULE FilestoreOps ----
(***************************************************************************)
(* Reference model of the documented semantics of the native filestore     *)
(* (C17).  tree: set of [p |-> path, dir |-> BOOLEAN, d |-> bytes].        *)
(* Paths are sandbox-relative strings "x" or "dir/x" (one nested level).   *)
(* Apply(tree, op) = [tree, ret, exc, data]: ret = name of the status code *)
(* ("none" for operations without one), exc = exception class or "none".   *)
(* Where the documentation is silent (missing parent directory for rename  *)
(* / mkdir, operations on directories) the current behaviour is recorded   *)
(* as the reference; DESIGN.md section 6 C17 lists these points.           *)
(***************************************************************************)
EXTENDS Naturals, Sequences, FiniteSets
FMax(a, b) == IF a > b THEN a ELSE b
FMin(a, b) == IF a < b THEN a ELSE b
Exists(t, p) == \E f \in t : f.p = p
IsDir(t, p) == \E f \in t : f.p = p /\ f.dir
IsFile(t, p) == \E f \in t : f.p = p /\ ~f.dir
Get(t, p) == CHOOSE f \in t : f.p = p
\* parent directory of "dir/x" is "dir", of "x" the sandbox root ("")
HasSlash(p) == \E i \in 1..Len(p) : SubSeq(p, i, i) = "/"
SlashAt(p) == CHOOSE i \in 1..Len(p) : SubSeq(p, i, i) = "/"
ParentOf(p) == IF HasSlash(p) THEN SubSeq(p, 1, SlashAt(p) - 1) ELSE ""
ParentOk(t, p) == ParentOf(p) = "" \/ IsDir(t, ParentOf(p))
Below(p, dir) == Len(p) > Len(dir) + 1 /\ SubSeq(p, 1, Len(dir) + 1) = dir \o "/"
PutFile(t, p, d) == { f \in t : f.p # p } \cup { [p |-> p, dir |-> FALSE, d |-> d] }
Del(t, p) == { f \in t : f.p # p }
Zeros(n) == [i \in 1..n |-> 0]
WriteAt(data, off, d) ==
  IF d = <<>> THEN data
  ELSE LET base == IF Len(data) < off THEN data \o Zeros(off - Len(data)) ELSE data
           n == FMax(Len(base), off + Len(d))
       IN [i \in 1..n |-> IF i > off /\ i <= off + Len(d) THEN d[i - off] ELSE base[i]]
R(t, ret) == [tree |-> t, ret |-> ret, exc |-> "none", data |-> <<>>]
X(t, exc) == [tree |-> t, ret |-> "none", exc |-> exc, data |-> <<>>]
Apply(t, o) ==
  CASE o.op = "create_file" ->
         IF Exists(t, o.p) \/ ~ParentOk(t, o.p) THEN R(t, "CREATE_NOT_ALLOWED") ELSE R(PutFile(t, o.p, <<>>), "CREATE_SUCCESS")
    [] o.op = "delete_file" ->
         IF ~Exists(t, o.p) THEN R(t, "DELETE_FILE_DOES_NOT_EXIST")
         ELSE IF IsDir(t, o.p) THEN R(t, "DELETE_NOT_ALLOWED") ELSE R(Del(t, o.p), "DELETE_SUCCESS")
    [] o.op = "rename_file" ->
         IF IsDir(t, o.p) \/ IsDir(t, o.q) THEN R(t, "RENAME_NOT_PERFORMED")
         ELSE IF ~Exists(t, o.p) THEN R(t, "RENAME_OLD_FILE_DOES_NOT_EXIST")
         ELSE IF Exists(t, o.q) THEN R(t, "RENAME_NEW_FILE_DOES_EXIST")
         ELSE IF ~ParentOk(t, o.q) THEN X(t, IF IsFile(t, ParentOf(o.q)) THEN "NotADirectoryError" ELSE "FileNotFoundError")
         ELSE R(PutFile(Del(t, o.p), o.q, Get(t, o.p).d), "RENAME_SUCCESS")
    [] o.op = "replace_file" ->      \* p: the file to be replaced, q: the source which takes its place
         IF IsDir(t, o.p) \/ IsDir(t, o.q) THEN R(t, "REPLACE_NOT_ALLOWED")
         ELSE IF ~Exists(t, o.p) THEN R(t, "REPLACE_FILE_NAME_ONE_TO_BE_REPLACED_DOES_NOT_EXIST")
         ELSE IF ~Exists(t, o.q) THEN R(t, "REPLACE_FILE_NAME_TWO_REPLACE_SOURCE_NOT_EXIST")
         ELSE IF o.p = o.q THEN R(t, "REPLACE_SUCCESS")
         ELSE R(PutFile(Del(t, o.q), o.p, Get(t, o.q).d), "REPLACE_SUCCESS")
    [] o.op = "create_directory" ->
         IF Exists(t, o.p) THEN R(t, "CREATE_DIR_CAN_NOT_BE_CREATED")
         ELSE IF ~ParentOk(t, o.p) THEN X(t, IF IsFile(t, ParentOf(o.p)) THEN "NotADirectoryError" ELSE "FileNotFoundError")
         ELSE R(t \cup { [p |-> o.p, dir |-> TRUE, d |-> <<>>] }, "CREATE_DIR_SUCCESS")
    [] o.op = "remove_directory" ->
         IF ~Exists(t, o.p) THEN R(t, "REMOVE_DIR_DOES_NOT_EXIST")
         ELSE IF ~IsDir(t, o.p) THEN R(t, "REMOVE_DIR_NOT_ALLOWED")
         ELSE IF o.rec THEN R({ f \in t : f.p # o.p /\ ~Below(f.p, o.p) }, "REMOVE_DIR_SUCCESS")
         ELSE IF \E f \in t : Below(f.p, o.p) THEN R(t, "REMOVE_DIR_NOT_ALLOWED")
         ELSE R(Del(t, o.p), "REMOVE_DIR_SUCCESS")
    [] o.op = "truncate_file" ->
         IF ~Exists(t, o.p) THEN X(t, "FileNotFoundError") ELSE IF IsDir(t, o.p) THEN X(t, "IsADirectoryError")
         ELSE R(PutFile(t, o.p, <<>>), "none")
    [] o.op = "write_data" ->
         IF ~Exists(t, o.p) THEN X(t, "FileNotFoundError") ELSE IF IsDir(t, o.p) THEN X(t, "IsADirectoryError")
         ELSE R(PutFile(t, o.p, WriteAt(Get(t, o.p).d, o.off, o.data)), "none")
    [] o.op = "read_data" ->
         IF ~Exists(t, o.p) THEN X(t, "FileNotFoundError") ELSE IF IsDir(t, o.p) THEN X(t, "IsADirectoryError")
         ELSE [tree |-> t, ret |-> "none", exc |-> "none",
               data |-> SubSeq(Get(t, o.p).d, o.off + 1, FMin(o.off + o.len, Len(Get(t, o.p).d)))]
    [] o.op = "file_size" ->
         IF ~Exists(t, o.p) THEN X(t, "FileNotFoundError")
         ELSE [tree |-> t, ret |-> "none", exc |-> "none", data |-> <<Len(Get(t, o.p).d)>>]
    [] o.op = "file_exists" -> R(t, IF Exists(t, o.p) THEN "true" ELSE "false")
    [] OTHER -> R(t, IF IsDir(t, o.p) THEN "true" ELSE "false")     \* is_directory
====

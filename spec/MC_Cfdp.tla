---- MODULE MC_Cfdp ----
(***************************************************************************)
(* Model-checking instances of the closed system.  A .cfg file (written    *)
(* by the harness from the tables in harness/models.py) picks one of the   *)
(* configuration families below and the environment constants.             *)
(***************************************************************************)
EXTENDS Cfdp, CfdpCfg
\* limits all equal to L; 1-byte segments so that a file of n bytes is n File Data PDUs
Base(L) == [DefaultCfg EXCEPT !.segLen = 1, !.ackLim = L, !.nakLim = L, !.chkLim = L]
\* acknowledged mode recovery (C01/C03/C06): closure x NAK mode x sizes
FamAck(L, sizes) ==
  Numbered({ [Base(L) EXCEPT !.closure = c, !.immNak = i, !.file = FileOf(n)] :
             c \in BOOLEAN, i \in BOOLEAN, n \in sizes })
\* every mode (C01/C02/C13/C15): mode x closure x NAK mode x sizes x checksum
FamAll(L, sizes, chks) ==
  Numbered({ [Base(L) EXCEPT !.mode = m, !.closure = c, !.immNak = i, !.file = FileOf(n), !.chk = k] :
             m \in {"ACK", "UNACK"}, c \in BOOLEAN, i \in BOOLEAN, n \in sizes, k \in chks })
\* acknowledged mode with the weak checksums (C01: loss / duplication / reordering only)
FamChk(L, sizes, chks) ==
  Numbered({ [Base(L) EXCEPT !.closure = c, !.immNak = i, !.file = FileOf(n), !.chk = k] :
             c \in BOOLEAN, i \in BOOLEAN, n \in sizes, k \in chks })
MdOnly(L) == Numbered({ [Base(L) EXCEPT !.mode = m, !.closure = c, !.mdOnly = TRUE, !.file = <<>>] :
                        m \in {"ACK", "UNACK"}, c \in BOOLEAN })
PrintCfgs(set) == PrintT(<<"CFGS", set>>)
====

---- MODULE LostSeg ----
(***************************************************************************)
(* C18: the lost-segment tracker as an abstract data type with a ghost     *)
(* byte set.  Operations are offered only under the preconditions of the   *)
(* property statement.                                                     *)
(***************************************************************************)
EXTENDS LostSegOps, TLC
CONSTANT MaxOff, EmitTransitions
VARIABLES segs, ghost, last
vars == <<segs, ghost, last>>
Rng(s, e) == LsRange(s, e, MaxOff)
Init == segs = <<>> /\ ghost = {} /\ last = [op |-> "init", s |-> 0, e |-> 0, changed |-> FALSE, err |-> FALSE]
Within(s, e) == \E p \in LsAsSet(segs) : p[1] <= s /\ e <= p[2]
TouchesNone(s, e) == Rng(s, e) \cap ghost = {}
StraddlesEnd(s, e) == s < e /\ \E p \in LsAsSet(segs) : p[1] <= s /\ s < p[2] /\ e > p[2]
AddOp(s, e) == /\ s < e /\ Rng(s, e) \cap ghost = {}
             /\ segs' = LsAdd(segs, s, e) /\ ghost' = ghost \cup Rng(s, e)
             /\ last' = [op |-> "add", s |-> s, e |-> e, changed |-> TRUE, err |-> FALSE]
RemoveOp(s, e) == /\ s <= e /\ (Within(s, e) \/ TouchesNone(s, e) \/ StraddlesEnd(s, e))
                /\ LET r == LsRemove(segs, s, e) IN
                   /\ segs' = r.segs
                   /\ ghost' = IF r.err THEN ghost ELSE ghost \ Rng(s, e)
                   /\ last' = [op |-> "remove", s |-> s, e |-> e, changed |-> r.changed, err |-> r.err]
Coalesce == segs' = LsCoalesce(segs) /\ ghost' = ghost
            /\ last' = [op |-> "coalesce", s |-> 0, e |-> 0, changed |-> FALSE, err |-> FALSE]
Next == (\E s, e \in 0..MaxOff : AddOp(s, e) \/ RemoveOp(s, e)) \/ Coalesce
Spec == Init /\ [][Next]_vars

\* ---- the property ----
Exact == LsDenote(segs, MaxOff) = ghost
WellFormed == \A i \in DOMAIN segs : segs[i][1] < segs[i][2] /\ (i > 1 => segs[i-1][2] <= segs[i][1])
AfterCoalesce == last.op = "coalesce" => \A i \in 2..Len(segs) : segs[i-1][2] < segs[i][1]
StepProps == [][ /\ (last'.op = "coalesce" => LsDenote(segs', MaxOff) = LsDenote(segs, MaxOff))
                 /\ (last'.op = "remove" => /\ (last'.changed <=> segs' # segs)
                                            /\ (last'.err <=> StraddlesEnd(last'.s, last'.e))
                                            /\ (last'.err => segs' = segs)) ]_vars
\* ---- schedule generation: every explored transition, once (TLC evaluates action constraints per transition)
Emit == EmitTransitions => PrintT(<<"TR", segs, last', segs'>>)
View == <<segs, ghost>>
====

---- MODULE Solo ----
(***************************************************************************)
(* One handler (the transducer SrcCore or DstCore) under an adversarial    *)
(* environment: any sequence of inputs from a small universe (PDUs of      *)
(* every kind with right and wrong addressing, None-calls, clock jumps,    *)
(* cancel / put / reset requests, rejected filestore operations).  The behaviour is kept as a    *)
(* trace in exactly the format the harness records from the real handler,  *)
(* so the monitors of CfdpProps are checked by TLC on EVERY input sequence *)
(* up to the depth bound (invariant NoViolation), and every sequence is    *)
(* printed as a schedule that the harness replays into the real handler.   *)
(***************************************************************************)
EXTENDS Naturals, Integers, Sequences, FiniteSets, TLC, Json, CfdpProps
CONSTANTS Side,      \* "S" | "D"
          Cfgs,      \* set of world configurations
          Depth,     \* number of inputs per sequence
          Props,     \* sequence of property ids whose monitors are checked
          Allowed,   \* set of <<prop, clause>> pairs of known findings (known_findings.json) not to stop at
          Emit       \* BOOLEAN: print every complete sequence
S == INSTANCE SrcCore
D == INSTANCE DstCore
VARIABLES cfg, hs, hd, now, tr, ins
vars == <<cfg, hs, hd, now, tr, ins>>
None == [t |-> "none"]
SeqToSet(q) == { q[i] : i \in DOMAIN q }

\* ---- the input universes (defined by the model-checking instance: MC_Solo) ----
\* an input is [k |-> "fsm" | "put" | "cancel" | "tick", a |-> argument, w |-> write rejected]
CONSTANT InputsOf(_, _, _)      \* (cfg, hs, hd) -> set of inputs

Fs0(c) ==
  CASE c.dstShape = "existing"    -> { [p |-> "d/" \o c.dstName, dir |-> FALSE, d |-> c.dstOld] }
    [] c.dstShape = "dir"         -> { [p |-> "d/" \o c.dstName, dir |-> TRUE, d |-> <<>>] }
    [] c.dstShape = "direxisting" -> { [p |-> "d/" \o c.dstName, dir |-> TRUE, d |-> <<>>],
                                       [p |-> "d/" \o c.dstName \o "/" \o c.srcName, dir |-> FALSE, d |-> c.dstOld] }
    [] OTHER                      -> {}
Init == /\ cfg \in Cfgs /\ hs = S!InitS(cfg) /\ hd = D!InitD(Fs0(cfg)) /\ now = 1000 /\ tr = <<>> /\ ins = <<>>

\* (a "lazy" input is a None-call after which the caller retrieves nothing: PDUs stay queued)
KindOf(i) == IF i.k = "lazy" THEN "fsm" ELSE i.k
TakeOf(i) == IF i.k = "lazy" THEN 0 ELSE -1
EvS(i, c, dr) ==
  [side |-> "S", call |-> KindOf(i), arg |-> i.a, now |-> now, take |-> TakeOf(i), wrej |-> FALSE, pre |-> S!PubS(hs), post |-> S!PubS(dr.h),
   ret |-> c.ret, exc |-> c.exc, excr |-> c.excr, excw |-> "model", out |-> dr.out, ind |-> c.ind, flt |-> c.flt, fs |-> <<>>]
EvD(i, c, dr) ==
  [side |-> "D", call |-> KindOf(i), arg |-> i.a, now |-> now, take |-> TakeOf(i), wrej |-> i.w, pre |-> D!PubD(hd), post |-> D!PubD(dr.h),
   ret |-> c.ret, exc |-> c.exc, excr |-> c.excr, excw |-> "model", out |-> dr.out, ind |-> c.ind, flt |-> c.flt,
   fs |-> SetToSeq(dr.h.fs)]
Step(i) ==
  /\ Len(ins) < Depth
  /\ ins' = Append(ins, i)
  /\ IF i.k = "tick" THEN now' = now + i.a.dt /\ UNCHANGED <<hs, hd, tr>>
     ELSE IF Side = "S" THEN
        LET c == CASE i.k = "put" -> S!SrcPut(hs, cfg, i.a, now)
                   [] i.k \in {"fsm", "lazy"} -> S!SrcFsm(hs, cfg, i.a, now)
                   [] i.k = "reset" -> S!SrcReset(hs, now)
                   [] OTHER -> S!SrcCancel(hs, cfg, i.a.right, now)
            dr == S!SrcDrain(c.h, TakeOf(i)) IN
        hs' = dr.h /\ tr' = Append(tr, EvS(i, c, dr)) /\ UNCHANGED <<hd, now>>
     ELSE
        LET c == CASE i.k \in {"fsm", "lazy"} -> D!DstFsm(hd, cfg, i.a, now, i.w)
                   [] i.k = "reset" -> D!DstReset(hd, now)
                   [] OTHER -> D!DstCancel(hd, cfg, i.a.right, now)
            dr == D!DstDrain(c.h, TakeOf(i)) IN
        hd' = dr.h /\ tr' = Append(tr, EvD(i, c, dr)) /\ UNCHANGED <<hs, now>>
  /\ UNCHANGED cfg
Next == \E i \in InputsOf(cfg, hs, hd) : Step(i)
Spec == Init /\ [][Next]_vars

Trace == [tid |-> 0, kind |-> IF Side = "S" THEN "src" ELSE "dst", cfg |-> cfg, props |-> Props, ev |-> tr,
          fs0 |-> SetToSeq(Fs0(cfg)), nfaults |-> 0, ncorrupt |-> 0, done |-> TRUE]
Bad == { v \in Violations(Trace) : <<v.prop, v.clause>> \notin Allowed }
NoViolation == Bad = {} \/ (PrintT(<<"MODELVIOLATION", Bad, ins>>) /\ PrintT("VSOLO" \o ToJson([c |-> cfg.id, ins |-> ins])) /\ FALSE)
\* the behavioural signature of a sequence: per call the step reached, the PDU kinds emitted, the exception class, the fault
\* callbacks and the indication kinds.  The harness replays at least one sequence of every signature (coverage-guided choice
\* among the millions of sequences) before it fills up with a uniform sample.
RECURSIVE CatS(_, _, _)
CatS(q, f(_), i) == IF i > Len(q) THEN "" ELSE f(q[i]) \o (IF i < Len(q) THEN "+" ELSE "") \o CatS(q, f, i + 1)
EvSig(e) == e.post.step \o "," \o CatS(e.out, LAMBDA p : p.t, 1) \o "," \o e.exc \o "," \o CatS(e.flt, LAMBDA f : f.k \o "-" \o f.cond, 1)
            \o "," \o CatS(e.ind, LAMBDA x : x.k, 1) \o "," \o e.ret
SigOf == CatS(tr, EvSig, 1)
EmitSeq == (Emit /\ Len(ins) = Depth) => PrintT("SOLO" \o cfg.mode \o ";" \o SigOf \o "|" \o ToJson([c |-> cfg.id, ins |-> ins]))
====

---- MODULE MCt ----
EXTENDS MC_Cfdp
C1 == FamAll(3, {0, 1, 3}, {"CRC32", "NULL"}) \cup {}
C2 == FamAck(3, {0, 1, 3})
====

---- MODULE CfdpTrace ----
(***************************************************************************)
(* Code -> spec: batch validation of executions recorded from the real     *)
(* handlers (harness/world.py).  For every trace TLC                       *)
(*  (1) replays the logged inputs through the transducers SrcCore/DstCore  *)
(*      and compares every logged output clause by clause (conformance),   *)
(*  (2) evaluates the property monitors of CfdpProps on the OBSERVED       *)
(*      values of the whole trace (independent of the transducers).        *)
(* Verdicts are total: one VERDICT line per trace, the validator never     *)
(* blocks.  Inputs are fully logged, so validation is linear.              *)
(***************************************************************************)
EXTENDS Naturals, Integers, Sequences, FiniteSets, TLC, Json, IOUtils, CfdpProps
S == INSTANCE SrcCore
D == INSTANCE DstCore
Traces == JsonDeserialize(IOEnv.TRACE_FILE)
VARIABLES tid, l, hs, hd, res
vars == <<tid, l, hs, hd, res>>
T == Traces[tid]
Ev == T.ev
AsSet(q) == { q[i] : i \in DOMAIN q }
Init == /\ tid \in 1..Len(Traces) /\ l = 1
        /\ hs = S!InitS(Traces[tid].cfg) /\ hd = D!InitD(AsSet(Traces[tid].fs0))
        /\ res = [k |-> "running", at |-> 0, clauses |-> {}, pred |-> <<>>]
M(n, b) == IF b THEN {n} ELSE {}
\* one source-side event: [h, m (mismatching clauses), pred]
DoS(e) ==
  IF e.call = "env" THEN [h |-> S!SrcFileChange(hs, e.arg.data), m |-> {}, pred |-> <<>>]
  ELSE
  LET c == CASE e.call = "put" -> S!SrcPut(hs, T.cfg, e.arg, e.now)
             [] e.call = "fsm" -> S!SrcFsm(hs, T.cfg, e.arg, e.now)
             [] e.call = "cancel" -> S!SrcCancel(hs, T.cfg, e.arg.right, e.now)
             [] OTHER -> S!SrcReset(hs, e.now)
      dr == S!SrcDrain(c.h, e.take)
      post == S!PubS(dr.h)
      m == M("out", dr.out # e.out) \cup M("ind", c.ind # e.ind) \cup M("flt", c.flt # e.flt) \cup M("exc", c.exc # e.exc)
           \cup M("excr", c.excr # e.excr) \cup M("ret", c.ret # e.ret) \cup M("post", post # e.post)
  IN [h |-> dr.h, m |-> m, pred |-> IF m = {} THEN <<>> ELSE <<dr.out, c.ind, c.flt, c.exc, c.excr, c.ret, post>>]
DoD(e) ==
  LET c == CASE e.call = "fsm" -> D!DstFsm(hd, T.cfg, e.arg, e.now, e.wrej)
             [] e.call = "cancel" -> D!DstCancel(hd, T.cfg, e.arg.right, e.now)
             [] OTHER -> D!DstReset(hd, e.now)
      dr == D!DstDrain(c.h, e.take)
      post == D!PubD(dr.h)
      m == M("out", dr.out # e.out) \cup M("ind", c.ind # e.ind) \cup M("flt", c.flt # e.flt) \cup M("exc", c.exc # e.exc)
           \cup M("excr", c.excr # e.excr) \cup M("ret", c.ret # e.ret) \cup M("post", post # e.post)
           \cup M("fs", dr.h.fs # AsSet(e.fs))
  IN [h |-> dr.h, m |-> m, pred |-> IF m = {} THEN <<>> ELSE <<dr.out, c.ind, c.flt, c.exc, c.excr, c.ret, post, dr.h.fs>>]
Consume ==
  /\ res.k = "running" /\ l <= Len(Ev)
  /\ LET e == Ev[l] IN
     IF e.side = "E" \/ T.kind = "multi" THEN l' = l + 1 /\ UNCHANGED <<hs, hd, res>>   \* environment event: no handler involved
     ELSE IF e.side = "S" THEN
        LET r == DoS(e) IN
        IF r.m = {} THEN hs' = r.h /\ l' = l + 1 /\ UNCHANGED <<hd, res>>
        ELSE res' = [k |-> "drift", at |-> l, clauses |-> r.m, pred |-> r.pred] /\ UNCHANGED <<hs, hd, l>>
     ELSE
        LET r == DoD(e) IN
        IF r.m = {} THEN hd' = r.h /\ l' = l + 1 /\ UNCHANGED <<hs, res>>
        ELSE res' = [k |-> "drift", at |-> l, clauses |-> r.m, pred |-> r.pred] /\ UNCHANGED <<hs, hd, l>>
  /\ UNCHANGED tid
Finish ==
  /\ (l > Len(Ev) \/ res.k = "drift")
  /\ res.k # "printed"
  /\ PrintT(<<"VERDICT", T.tid, IF res.k = "drift" THEN "drift" ELSE "ok", res.at, res.clauses, res.pred, Violations(T)>>)
  /\ res' = [res EXCEPT !.k = "printed"] /\ UNCHANGED <<tid, l, hs, hd>>
Next == Consume \/ Finish
Spec == Init /\ [][Next]_vars
====

---- MODULE Cfdp ----
(***************************************************************************)
(* The closed system: one sending entity (SrcCore) and one receiving       *)
(* entity (DstCore) joined by two unreliable links, a clock, the users     *)
(* (cancel requests), a filestore that may reject writes, and the entity   *)
(* layer that answers PDUs of transactions the handlers already closed.    *)
(* The handlers are deterministic transducers; ALL nondeterminism is in    *)
(* the environment actions below.                                          *)
(*                                                                         *)
(* Time: the transducers read the clock only through now - start >= int.   *)
(* The closed model therefore keeps the clock fixed at Now and ages the    *)
(* armed timers instead (Tick moves every armed timer's start back, never  *)
(* further than its own interval), which is bisimilar and finite.          *)
(***************************************************************************)
EXTENDS Naturals, Integers, Sequences, FiniteSets, TLC, Json
CONSTANTS Cfgs,      \* set of world configuration records (harness/world.py DEFAULT_CFG shape)
          K,         \* fault budget
          Faults,    \* subset of {"drop", "dup", "swap", "flip", "wrej", "delay", "hold"}
          Cancels,   \* subset of {"S", "D"}: one cancel request of that user may happen
          Cuts,      \* subset of {"sd", "ds"}: that link may fall silent for good (C04)
          Pacing,    \* "canon" (entity loop of the example application) | "free" (any interleaving)
          Ticks,     \* set of clock increments (ms)
          Record,    \* BOOLEAN: keep the schedule history (schedule generation)
          MaxHist    \* bound on the history length when Record
S == INSTANCE SrcCore
D == INSTANCE DstCore
Now == 100000
None == [t |-> "none"]
VARIABLES cfg, hs, hd, sd, ds, budget, cbud, cut, obs, turn, settled, hist, txn, held
vars == <<cfg, hs, hd, sd, ds, budget, cbud, cut, obs, turn, settled, hist, txn, held>>

CMax(a, b) == IF a > b THEN a ELSE b
CMin(a, b) == IF a < b THEN a ELSE b
SeqSet(q) == { q[i] : i \in DOMAIN q }

\* ---- the put request and the initial destination sandbox of a configuration ----
ReqOf(c) ==
  [mdOnly |-> c.mdOnly, mode |-> c.putMode, closure |-> c.putClosure, exists |-> ~c.mdOnly,
   data |-> IF c.mdOnly THEN <<>> ELSE c.file,
   srcName |-> IF c.mdOnly THEN "none" ELSE "s/" \o c.srcName, srcBase |-> IF c.mdOnly THEN "none" ELSE c.srcName,
   dstName |-> IF c.mdOnly THEN "none" ELSE "d/" \o c.dstName, dIdW |-> c.dIdW, dId |-> c.dId, known |-> TRUE,
   msgs |-> c.msgs, xopts |-> c.xopts]
DstPath(c) == IF c.dstShape \in {"dir", "direxisting"} THEN "d/" \o c.dstName \o "/" \o c.srcName ELSE "d/" \o c.dstName
Fs0(c) ==
  CASE c.dstShape = "existing"    -> { [p |-> "d/" \o c.dstName, dir |-> FALSE, d |-> c.dstOld] }
    [] c.dstShape = "dir"         -> { [p |-> "d/" \o c.dstName, dir |-> TRUE, d |-> <<>>] }
    [] c.dstShape = "direxisting" -> { [p |-> "d/" \o c.dstName, dir |-> TRUE, d |-> <<>>],
                                       [p |-> "d/" \o c.dstName \o "/" \o c.srcName, dir |-> FALSE, d |-> c.dstOld] }
    [] OTHER                      -> {}
EffMode(c) == IF c.putMode = "none" THEN c.mode ELSE c.putMode
EffClosure(c) == IF c.putClosure = "none" THEN c.closure ELSE c.putClosure = "true"

\* ---- observations (what a user of the two entities can see) ----
Succ(f) == f.cond = "NO_ERROR" /\ f.deliv = "DATA_COMPLETE" /\ f.fstat = "FILE_RETAINED"
FileOk(fs) == \E f \in fs : f.p = DstPath(cfg) /\ ~f.dir /\ f.d = cfg.file
Collides(fs) == \E f \in fs : /\ f.p = DstPath(cfg) /\ ~f.dir /\ f.d # cfg.file
                              /\ S!FileChecksum(cfg.chk, f.d, Len(f.d)) = S!FileChecksum(cfg.chk, cfg.file, Len(cfg.file))
Obs0 == [finS |-> <<>>, finD |-> <<>>, finPdu |-> <<>>, exc |-> {}, flt |-> {}, dStarted |-> FALSE, nS |-> 0, nD |-> 0, kf |-> {}, corrupt |-> FALSE, lastEnvTxn |-> 0]
FinRecs(ind, fs) ==
  LET f == SelectSeq(ind, LAMBDA i : i.k = "finished") IN
  [i \in DOMAIN f |-> [cond |-> f[i].cond, deliv |-> f[i].deliv, fstat |-> f[i].fstat,
                       ok |-> cfg.mdOnly \/ FileOk(fs), coll |-> Collides(fs)]]
FinPdus(out, fs) ==
  LET f == SelectSeq(out, LAMBDA p : p.t = "FIN") IN
  [i \in DOMAIN f |-> [cond |-> f[i].cond, deliv |-> f[i].deliv, fstat |-> f[i].fstat,
                       ok |-> cfg.mdOnly \/ FileOk(fs), coll |-> Collides(fs)]]
\* Signatures of the known findings (known_findings.json), over observables of one call:
\*  F01: an EOF PDU delivered to the receiver after it had already accepted the EOF of this transaction is not
\*       answered with an ACK (EOF)
KnownSig(side, pre, pkt, out) ==
  IF side = "D" /\ pkt.t = "EOF" /\ pre.state = "BUSY" /\ pre.p.hdr.mode = "ACK" /\ pre.p.eofSize >= 0
     /\ ~\E i \in DOMAIN out : out[i].t = "ACK" /\ out[i].acked = "EOF"
  THEN {"F01"} ELSE {}
ObsCall(side, c, out, fs) ==
  [obs EXCEPT !.finS = IF side = "S" THEN @ \o FinRecs(c.ind, fs) ELSE @,
              !.finD = IF side = "D" THEN @ \o FinRecs(c.ind, fs) ELSE @,
              !.finPdu = IF side = "D" THEN @ \o FinPdus(out, fs) ELSE @,
              !.exc = IF c.exc # "none" THEN @ \cup {<<side, c.exc>>} ELSE @,
              !.flt = @ \cup { <<side, c.flt[i].k, c.flt[i].cond>> : i \in DOMAIN c.flt },
              !.dStarted = @ \/ (side = "D" /\ c.h.state = "BUSY"),
              !.nS = IF side = "S" THEN @ + Len(out) ELSE @,
              !.nD = IF side = "D" THEN @ + Len(out) ELSE @]

\* ---- entity layer ----
SrcClosed == hs.state = "IDLE"
DstClosed == obs.dStarted /\ hd.state = "IDLE"
EntAckEof(p) == [h |-> [p.h EXCEPT !.dir = "TS"], t |-> "ACK", acked |-> "EOF", cond |-> p.cond, tstat |-> "TERMINATED"]
EntAckFin(p) == [h |-> [p.h EXCEPT !.dir = "TR"], t |-> "ACK", acked |-> "FIN", cond |-> p.cond, tstat |-> "TERMINATED"]

Quiet == sd = <<>> /\ ds = <<>> /\ held.sd = <<>> /\ held.ds = <<>>
AtRest == SrcClosed /\ hd.state = "IDLE" /\ Quiet
NTx == 1 + Len(cfg.more)          \* cfg.more: the put requests that follow the first one on the same handlers
Done == AtRest /\ txn = NTx
\* ---- the clock (ageing of the armed timers, see the header) ----
AgeT(t, dt, int) == IF t.armed THEN [t EXCEPT !.start = CMax(@ - dt, Now - int)] ELSE t
AgedS(dt) == [hs EXCEPT !.ackT = AgeT(@, dt, cfg.ackInt), !.chkT = AgeT(@, dt, cfg.chkInt)]
AgedD(dt) == [hd EXCEPT !.p.nakT = AgeT(@, dt, cfg.nakInt), !.p.ackT = AgeT(@, dt, D!AckIntD(cfg)),
                        !.p.chkT = AgeT(@, dt, cfg.chkInt)]
CanTick == \E dt \in Ticks : <<AgedS(dt), AgedD(dt)>> # <<hs, hd>>   \* some armed timer has not expired yet
\* A side is settled when its last call had no effect (nothing emitted, no state change) or its transaction is closed.
\* The application polls its handlers at least once per timer period: time passes only while both sides are settled,
\* and after time has passed both have to be polled again.
BothSettled == ("S" \in settled \/ hs.state = "IDLE") /\ ("D" \in settled \/ hd.state = "IDLE")
\* canonical pacing: when moreover both links are empty, time passes at once
\* (if no timer is running either, nothing will ever happen again: the run is stuck)
Calm == Pacing = "canon" /\ Quiet /\ BothSettled
Between == AtRest /\ txn < NTx        \* one transaction is over, the next put request comes now
Stuck == Calm /\ ~CanTick /\ ~Done /\ ~Between
Open == ~Done /\ ~Stuck /\ ~Between /\ (~Record \/ Len(hist) < MaxHist)
Polling == ~Calm     \* handler calls are made only while not calm
\* the recorded schedule: one entry per step; s = for environment steps, what was hit and where the handlers stood (the
\* behavioural signature of the schedule: the harness executes at least one schedule of every signature, see EmitSched)
HistS(a, x, s) == hist' = IF Record THEN Append(hist, [a |-> a, x |-> x, s |-> s]) ELSE hist
Hist(a, x) == HistS(a, x, "")
At == hs.step \o "/" \o hd.step
HeadOf(l) == (IF l = "sd" THEN Head(sd).t ELSE Head(ds).t) \o "@" \o At
Canon == Pacing = "canon"
\* what reaches the other end of a link (a cut link swallows everything)
OnSd(out) == IF "sd" \in cut THEN sd ELSE sd \o out
OnDs(out) == IF "ds" \in cut THEN ds ELSE ds \o out

Init ==
  /\ cfg \in Cfgs
  /\ hs = S!SrcPut(S!InitS(cfg), cfg, ReqOf(cfg), Now).h
  /\ hd = D!InitD(Fs0(cfg))
  /\ sd = <<>> /\ ds = <<>> /\ budget = K /\ cbud = Cancels /\ cut = {} /\ obs = Obs0
  /\ turn = "S" /\ settled = {} /\ hist = <<>> /\ txn = 1 /\ held = [sd |-> <<>>, ds |-> <<>>]

\* ---- handler calls (one state_machine call + draining get_next_packet into the outbound link) ----
SrcCall(deliver) ==
  /\ Open /\ Polling /\ ~SrcClosed /\ (Canon => turn = "S") /\ (deliver => ds # <<>>) /\ (Canon /\ ds # <<>> => deliver)
  /\ LET pkt == IF deliver THEN Head(ds) ELSE None
         c == S!SrcFsm(hs, cfg, pkt, Now)
         dr == S!SrcDrain(c.h, -1) IN
     /\ hs' = dr.h /\ sd' = OnSd(dr.out) /\ ds' = IF deliver THEN Tail(ds) ELSE ds
     /\ obs' = ObsCall("S", c, dr.out, hd.fs)
     /\ settled' = IF ~deliver /\ dr.out = <<>> /\ dr.h = hs THEN settled \cup {"S"} ELSE settled \ {"S"}
  /\ turn' = IF Canon THEN "D" ELSE turn
  /\ Hist("S", IF deliver THEN 1 ELSE 0)
  /\ UNCHANGED <<held, txn, cfg, hd, budget, cbud, cut>>
DstCall(deliver, wrej) ==
  /\ Open /\ Polling /\ ~DstClosed /\ (Canon => turn = "D") /\ (deliver => sd # <<>>) /\ (Canon /\ sd # <<>> => deliver)
  /\ wrej => (deliver /\ Head(sd).t \in {"FD", "MD"} /\ "wrej" \in Faults /\ budget > 0)
  /\ LET pkt == IF deliver THEN Head(sd) ELSE None
         c == D!DstFsm(hd, cfg, pkt, Now, wrej)
         dr == D!DstDrain(c.h, -1) IN
     /\ hd' = dr.h /\ ds' = OnDs(dr.out) /\ sd' = IF deliver THEN Tail(sd) ELSE sd
     /\ obs' = [ObsCall("D", c, dr.out, dr.h.fs) EXCEPT !.kf = @ \cup KnownSig("D", hd, pkt, dr.out),
                                                       !.corrupt = @ \/ wrej, !.lastEnvTxn = IF wrej THEN txn ELSE @]
     /\ settled' = IF ~deliver /\ dr.out = <<>> /\ dr.h = hd THEN settled \cup {"D"} ELSE settled \ {"D"}
  /\ budget' = IF wrej THEN budget - 1 ELSE budget
  /\ turn' = IF Canon THEN "S" ELSE turn
  /\ HistS("D", IF wrej THEN 2 ELSE IF deliver THEN 1 ELSE 0, IF wrej THEN HeadOf("sd") ELSE "")
  /\ UNCHANGED <<held, txn, cfg, hs, cbud, cut>>
\* closed transactions: the entity answers Finished / EOF and discards the rest
SrcEntity ==
  /\ Open /\ Polling /\ SrcClosed /\ (Canon => turn = "S")
  /\ IF ds # <<>> THEN /\ sd' = IF Head(ds).t = "FIN" THEN OnSd(<<EntAckFin(Head(ds))>>) ELSE sd
                       /\ ds' = Tail(ds) /\ Hist("Se", 1)
     ELSE Canon /\ UNCHANGED <<sd, ds, hist>>
  /\ turn' = IF Canon THEN "D" ELSE turn
  /\ UNCHANGED <<held, txn, cfg, hs, hd, budget, cbud, cut, obs, settled>>
DstEntity ==
  /\ Open /\ Polling /\ DstClosed /\ (Canon => turn = "D")
  /\ IF sd # <<>> THEN /\ ds' = IF Head(sd).t = "EOF" /\ Head(sd).h.mode = "ACK" THEN OnDs(<<EntAckEof(Head(sd))>>) ELSE ds
                       /\ sd' = Tail(sd) /\ Hist("De", 1)
     ELSE Canon /\ UNCHANGED <<sd, ds, hist>>
  /\ turn' = IF Canon THEN "S" ELSE turn
  /\ UNCHANGED <<held, txn, cfg, hs, hd, budget, cbud, cut, obs, settled>>

\* ---- the link: faults hit the PDU that would be delivered next ----
LinkTurn(l) == Canon => turn = (IF l = "sd" THEN "D" ELSE "S")
Flip1(b) == IF b % 2 = 0 THEN b + 1 ELSE b - 1
Fault(kind, l) ==
  /\ Open /\ kind \in Faults /\ budget > 0 /\ LinkTurn(l)
  /\ LET q == IF l = "sd" THEN sd ELSE ds IN
     /\ q # <<>>
     /\ kind = "swap" => Len(q) >= 2 /\ q[1] # q[2]
     /\ kind = "flip" => q[1].t = "FD" /\ q[1].data # <<>>
     /\ LET q2 == CASE kind = "drop" -> Tail(q)
                    [] kind = "dup"  -> <<Head(q)>> \o q
                    [] kind = "swap" -> <<q[2], q[1]>> \o SubSeq(q, 3, Len(q))
                    [] kind = "flip" -> <<[q[1] EXCEPT !.data[1] = Flip1(@)]>> \o Tail(q)
        IN IF l = "sd" THEN sd' = q2 /\ UNCHANGED ds ELSE ds' = q2 /\ UNCHANGED sd
  /\ budget' = budget - 1
  /\ obs' = [obs EXCEPT !.corrupt = @ \/ kind = "flip", !.lastEnvTxn = txn]
  /\ HistS(kind, IF l = "sd" THEN 0 ELSE 1, HeadOf(l))
  /\ UNCHANGED <<held, txn, cfg, hs, hd, cbud, cut, turn, settled>>
\* one PDU is delayed / overtaken: the PDU that would be delivered next is taken out of the link (one fault) and put back in
\* front of whatever is in the link at some later moment (before time passes again under canonical pacing)
Hold(l) ==
  /\ Open /\ "hold" \in Faults /\ budget > 0 /\ LinkTurn(l) /\ held[l] = <<>>
  /\ LET q == IF l = "sd" THEN sd ELSE ds IN
     /\ q # <<>>
     /\ held' = [held EXCEPT ![l] = <<Head(q)>>]
     /\ IF l = "sd" THEN sd' = Tail(q) /\ UNCHANGED ds ELSE ds' = Tail(q) /\ UNCHANGED sd
  /\ budget' = budget - 1
  /\ HistS("hold", IF l = "sd" THEN 0 ELSE 1, HeadOf(l))
  /\ UNCHANGED <<txn, cfg, hs, hd, cbud, cut, obs, turn, settled>>
Release(l) ==
  /\ Open /\ held[l] # <<>>
  /\ held' = [held EXCEPT ![l] = <<>>]
  /\ IF l = "sd" THEN sd' = held[l] \o sd /\ UNCHANGED ds ELSE ds' = held[l] \o ds /\ UNCHANGED sd
  /\ HistS("release", IF l = "sd" THEN 0 ELSE 1, At)
  /\ UNCHANGED <<txn, cfg, hs, hd, budget, cbud, cut, obs, turn, settled>>
\* the link falls silent for good: everything in flight and everything sent later is lost
Cut(l) ==
  /\ Open /\ l \in Cuts /\ l \notin cut /\ LinkTurn(l)
  /\ cut' = cut \cup {l}
  /\ IF l = "sd" THEN sd' = <<>> /\ UNCHANGED ds ELSE ds' = <<>> /\ UNCHANGED sd
  /\ HistS("cut", IF l = "sd" THEN 0 ELSE 1, At)
  /\ UNCHANGED <<held, txn, cfg, hs, hd, budget, cbud, obs, turn, settled>>

\* Time passing while PDUs are in flight delays each of them: that is a link fault ("delay") and costs budget.
Tick(dt) ==
  /\ Open /\ BothSettled /\ (Canon => Calm)
  /\ LET n == Len(sd) + Len(ds) IN
     IF n = 0 THEN UNCHANGED budget
     ELSE "delay" \in Faults /\ budget >= n /\ budget' = budget - n
  /\ hs' = AgedS(dt) /\ hd' = AgedD(dt)
  /\ <<hs', hd'>> # <<hs, hd>>        \* only while some armed timer has not expired yet
  /\ settled' = {}
  /\ Hist("tick", dt)
  /\ UNCHANGED <<held, txn, cfg, sd, ds, cbud, cut, obs, turn>>

\* ---- the users ----
CancelS ==
  /\ Open /\ "S" \in cbud /\ ~SrcClosed /\ hs.hasTid /\ (Canon => turn = "S")
  /\ LET c == S!SrcCancel(hs, cfg, TRUE, Now)
         dr == S!SrcDrain(c.h, -1) IN
     /\ hs' = dr.h /\ sd' = OnSd(dr.out) /\ obs' = [ObsCall("S", c, dr.out, hd.fs) EXCEPT !.lastEnvTxn = txn]
  /\ cbud' = cbud \ {"S"} /\ settled' = settled \ {"S"}
  /\ HistS("cancelS", 1, At)
  /\ UNCHANGED <<held, txn, cfg, hd, ds, budget, cut, turn>>
CancelD ==
  /\ Open /\ "D" \in cbud /\ hd.state = "BUSY" /\ (Canon => turn = "D")
  /\ LET c == D!DstCancel(hd, cfg, TRUE, Now)
         dr == D!DstDrain(c.h, -1) IN
     /\ hd' = dr.h /\ ds' = OnDs(dr.out) /\ obs' = [ObsCall("D", c, dr.out, dr.h.fs) EXCEPT !.lastEnvTxn = txn]
  /\ cbud' = cbud \ {"D"} /\ settled' = settled \ {"D"}
  /\ HistS("cancelD", 1, At)
  /\ UNCHANGED <<held, txn, cfg, hs, sd, budget, cut, turn>>

\* the next put request on the same (now idle again) handlers, after a pause of m.gap ms
NextPut ==
  /\ AtRest /\ txn < NTx /\ (~Record \/ Len(hist) < MaxHist)
  /\ LET m == cfg.more[txn]
         c2 == [cfg EXCEPT !.putMode = m.putMode, !.putClosure = m.putClosure] IN
     /\ hs' = S!SrcPut(hs, cfg, ReqOf(c2), Now).h
     /\ Hist("put", m.gap)
  /\ txn' = txn + 1 /\ obs' = [obs EXCEPT !.dStarted = FALSE] /\ settled' = {} /\ turn' = "S"
  /\ UNCHANGED <<cfg, hd, sd, ds, budget, cbud, cut, held>>

Calls == \/ \E d \in BOOLEAN : SrcCall(d)
         \/ NextPut
         \/ \E d \in BOOLEAN, w \in BOOLEAN : DstCall(d, w)
         \/ SrcEntity \/ DstEntity
Env == \/ \E k \in {"drop", "dup", "swap", "flip"}, l \in {"sd", "ds"} : Fault(k, l)
       \/ \E l \in {"sd", "ds"} : Hold(l) \/ Release(l)
       \/ \E l \in {"sd", "ds"} : Cut(l)
       \/ CancelS \/ CancelD
Time == \E dt \in Ticks : Tick(dt)
Next == Calls \/ Env \/ Time
Spec == Init /\ [][Next]_vars
\* fairness for liveness: handler calls, entity answers and the clock keep going (faults need not)
\* (and a PDU that was held back is delivered in the end)
FairSpec == Spec /\ WF_vars(Calls) /\ WF_vars(Time) /\ WF_vars(\E l \in {"sd", "ds"} : Release(l))

\* ==== properties over the observations ====
\* C01: a reported success implies an identical file (or a genuine checksum collision)
\* (the collision clause is for what only the checksum can detect: corrupted payload / rejected writes, and loss in
\* unacknowledged mode; loss, duplication, reordering and delay in acknowledged mode must be repaired whatever the checksum)
AllAck == EffMode(cfg) = "ACK" /\ \A i \in DOMAIN cfg.more : EffMode([cfg EXCEPT !.putMode = cfg.more[i].putMode]) = "ACK"
CollisionExcuses == obs.corrupt \/ ~AllAck
C01 == \A q \in {obs.finS, obs.finD, obs.finPdu} : \A i \in DOMAIN q :
          Succ(q[i]) => (q[i].ok \/ (q[i].coll /\ CollisionExcuses))
\* no API call raised, no fault callback fired
NoExc == obs.exc = {}
NoFlt == obs.flt = {}
\* at most one Transaction-Finished indication per side and transaction
OneFin == Len(obs.finS) <= txn /\ Len(obs.finD) <= txn
GoodS(f) == f.cond = "NO_ERROR" /\ f.deliv = "DATA_COMPLETE"
\* the outcome demanded by C02 / C03 once everything is over
GoodEnd == /\ (cfg.indS.finished => Len(obs.finS) = NTx /\ \A i \in DOMAIN obs.finS : GoodS(obs.finS[i]))
           /\ (cfg.indD.finished => Len(obs.finD) = NTx /\ \A i \in DOMAIN obs.finD : GoodS(obs.finD[i]) /\ obs.finD[i].ok)
           /\ (cfg.mdOnly \/ FileOk(hd.fs))
DoneIsGood == Done => GoodEnd
\* C11: whatever happened to the earlier transactions on the same handlers (faults, cancellations, abandonment), a later
\* transaction that the environment leaves alone ends like one on fresh handlers: successfully, with an identical file
LastTxnGood == (Done /\ obs.lastEnvTxn < NTx) =>
                 /\ (cfg.indS.finished => obs.finS # <<>> /\ GoodS(obs.finS[Len(obs.finS)]))
                 /\ (cfg.indD.finished => obs.finD # <<>> /\ GoodS(obs.finD[Len(obs.finD)]) /\ obs.finD[Len(obs.finD)].ok)
                 /\ (cfg.mdOnly \/ FileOk(hd.fs))
Completes == <>Done
\* (kept under its old name: no finding is excluded any more - F01 was repaired)
CompletesKf == <>Done
\* C04: whatever happens, the handlers come to rest (a silent peer cannot hang a transaction) ...
ComesToRest == <>[](hs.state = "IDLE" /\ hd.state = "IDLE")
\* ... except in the waits the statement leaves unbounded: sender awaiting Finished after its EOF was acknowledged,
\* receiver awaiting file data / EOF
UnboundedWait == \/ (hs.state = "BUSY" /\ hs.step = "WAITING_FOR_FINISHED" /\ hs.hdr.mode = "ACK")
                 \/ (hd.state = "BUSY" /\ hd.step \in {"RECEIVING_FILE_DATA", "WAITING_FOR_METADATA"} /\ ~hd.p.deferred /\ hd.p.eofSize < 0)
RestOrWait == <>[](Done \/ UnboundedWait \/ ((hs.state = "IDLE" \/ UnboundedWait) /\ (hd.state = "IDLE" \/ UnboundedWait)))
\* schedule emission: print each complete behaviour once (Record: the history is part of the state)
Terminal == Done \/ Stuck \/ (Record /\ Len(hist) >= MaxHist)
RECURSIVE SchedSig(_)
SchedSig(i) == IF i > Len(hist) THEN ""
               ELSE (IF hist[i].s = "" THEN "" ELSE hist[i].a \o ToString(hist[i].x) \o ":" \o hist[i].s \o ";") \o SchedSig(i + 1)
EmitSched == (Record /\ Terminal) => PrintT("SCHED" \o cfg.mode \o ";" \o SchedSig(1) \o "|" \o ToJson([c |-> cfg.id, st |-> IF Done THEN "done" ELSE IF Stuck THEN "stuck" ELSE "open", h |-> hist]))
====

---- MODULE Checksum ----
(***************************************************************************)
(* File checksums of CCSDS 727.0-B-5, defined from first principles and    *)
(* independently of crcmod's tables.  32-bit values are pairs of 16-bit    *)
(* limbs <<hi, lo>> because TLC integers are 32-bit signed.                *)
(*   CRC-32  (ISO-HDLC):    reflected poly 0xEDB88320, init/xorout all 1s  *)
(*   CRC-32C (Castagnoli):  reflected poly 0x82F63B78, init/xorout all 1s  *)
(*   modular: sum of zero-padded big-endian 4-byte words mod 2^32          *)
(*   null:    0                                                            *)
(***************************************************************************)
EXTENDS Naturals, Sequences, SequencesExt, Bitwise

CkShr1(r) == << r[1] \div 2, (r[2] \div 2) + (r[1] % 2) * 32768 >>
CkXor(r, p) == << r[1] ^^ p[1], r[2] ^^ p[2] >>
CkBit(r, p) == IF r[2] % 2 = 1 THEN CkXor(CkShr1(r), p) ELSE CkShr1(r)
CkBits8(r, p) == CkBit(CkBit(CkBit(CkBit(CkBit(CkBit(CkBit(CkBit(r, p), p), p), p), p), p), p), p)
Poly32  == << 60856, 33568 >>   \* 0xEDB8 8320
Poly32C == << 33526, 15224 >>   \* 0x82F6 3B78
CrcInit == << 65535, 65535 >>
\* one byte into the (not yet inverted) register
CrcStep(p, r, b) == CkBits8(<< r[1], r[2] ^^ b >>, p)
CrcFinal(r) == << 65535 - r[1], 65535 - r[2] >>
\* register after a chunk: used by the chunked-calculation model (C09)
CrcFeed(p, r, s) == FoldLeft(LAMBDA acc, b : CkBits8(<< acc[1], acc[2] ^^ b >>, p), r, s)
Crc(p, s) == CrcFinal(CrcFeed(p, CrcInit, s))

\* byte i (1-based) of s, 0 beyond the end
CkByte(s, i) == IF i <= Len(s) THEN s[i] ELSE 0
\* add the 4-byte word starting at byte index i (1-based) to the accumulator, mod 2^32
CkAddWord(acc, s, i) ==
   LET lo == acc[2] + CkByte(s, i + 2) * 256 + CkByte(s, i + 3)
       hi == acc[1] + CkByte(s, i) * 256 + CkByte(s, i + 1) + (lo \div 65536)
   IN << hi % 65536, lo % 65536 >>
Modular(s) == LET n == (Len(s) + 3) \div 4 IN
              FoldLeft(LAMBDA acc, k : CkAddWord(acc, s, 4 * (k - 1) + 1), <<0, 0>>, [k \in 1..n |-> k])

Prefix(s, n) == SubSeq(s, 1, IF n < Len(s) THEN n ELSE Len(s))
\* The checksum of the first n bytes of s, by type name.  The modular checksum of the library's filestore always
\* covers the whole file (observation F17, DESIGN.md); properties demand it only for n = Len(s).
FileChecksum(type, s, n) ==
   CASE type = "CRC32"   -> Crc(Poly32, Prefix(s, n))
     [] type = "CRC32C"  -> Crc(Poly32C, Prefix(s, n))
     [] type = "MODULAR" -> Modular(s)
     [] OTHER            -> <<0, 0>>
====

---- MODULE SrcCore ----
(***************************************************************************)
(* The SourceHandler of cfdppy (handler/source.py) as a deterministic      *)
(* transducer.  Every public call is one operator from the handler record  *)
(* (plus arguments, the clock and the configuration) to a context record   *)
(*   c = [h, out (PDUs queued by this call), ind, flt, exc, excr, ret, now]*)
(* Sub-steps mirror the methods of the code one to one (names in comments) *)
(* and are composed sequentially like the fall-through `if` chain of       *)
(* _fsm_non_idle.  No operator reads anything but its arguments.           *)
(*                                                                         *)
(* cfg: the world configuration record of harness/world.py                 *)
(***************************************************************************)
EXTENDS Naturals, Integers, Sequences, Checksum, PduLayout

SMin(a, b) == IF a < b THEN a ELSE b
SMax(a, b) == IF a > b THEN a ELSE b
NoTimerS == [armed |-> FALSE, start |-> 0]
NoFinS == [set |-> FALSE, cond |-> "NO_ERROR", deliv |-> "DATA_COMPLETE", fstat |-> "FILE_STATUS_UNREPORTED"]
NoTidS == [set |-> FALSE, src |-> 0, seq |-> 0]
NoReqS == [mdOnly |-> FALSE, mode |-> "none", closure |-> "none", exists |-> FALSE, data |-> <<>>, srcName |-> "none",
           srcBase |-> "none", dstName |-> "none", dIdW |-> 0, dId |-> 0, known |-> FALSE, msgs |-> <<>>, xopts |-> <<>>]
\* PduConfig.empty() with the local entity id as source id (constructor); after reset() the source id is empty too
EmptyHdrS(w, v) == [dir |-> "TR", mode |-> "ACK", crc |-> FALSE, lf |-> FALSE, sw |-> w, sv |-> v, dw |-> 0, dv |-> 0,
                    qw |-> 0, qv |-> 0]

InitS(cfg) ==
  [state |-> "IDLE", step |-> "IDLE", put |-> FALSE, req |-> NoReqS, file |-> <<>>, progress |-> 0, fileSize |-> 0,
   emptyFile |-> FALSE, mdOnly |-> FALSE, segLen |-> 0, eofCond |-> "none", closure |-> FALSE,
   ackT |-> NoTimerS, ackCnt |-> 0, chkT |-> NoTimerS, stepBefore |-> "none", hasTid |-> FALSE, tseq |-> -1,
   fin |-> NoFinS, cfgSet |-> FALSE, q |-> <<>>, nready |-> 0, hdr |-> EmptyHdrS(cfg.sIdW, cfg.sId),
   seqNext |-> cfg.seq0]

CtxS(h, now) == [h |-> h, out |-> <<>>, ind |-> <<>>, flt |-> <<>>, exc |-> "none", excr |-> "none", ret |-> "none",
                 now |-> now, stop |-> FALSE]
OkS(c) == ~c.stop /\ c.exc = "none"
ThenS(c, Op(_)) == IF OkS(c) THEN Op(c) ELSE c
EmitS(c, p) == [c EXCEPT !.h.q = Append(@, p), !.h.nready = @ + 1]
IndS(c, i) == [c EXCEPT !.ind = Append(@, i)]
FltS(c, f) == [c EXCEPT !.flt = Append(@, f)]
ExcS(c, e) == [c EXCEPT !.exc = e]
ExcRS(c, e, r) == [c EXCEPT !.exc = e, !.excr = r]
StopS(c) == [c EXCEPT !.stop = TRUE]
StepS(c, s) == [c EXCEPT !.h.step = s]
TidS(h) == IF h.hasTid THEN [set |-> TRUE, src |-> h.hdr.sv, seq |-> h.tseq] ELSE NoTidS
ExpiredS(t, now, int) == now - t.start >= int

\* _reset_internal(clear): _put_req, ack_params (step before retransmission) and the sequence number provider survive;
\* the queue and its counter survive unless cleared
ResetS(c, clear) ==
  [c EXCEPT !.h = [@ EXCEPT !.state = "IDLE", !.step = "IDLE", !.progress = 0, !.fileSize = -1, !.emptyFile = FALSE,
                            !.mdOnly = FALSE, !.segLen = 0, !.eofCond = "none", !.closure = FALSE, !.ackT = NoTimerS,
                            !.ackCnt = 0, !.chkT = NoTimerS, !.hasTid = FALSE, !.tseq = -1, !.fin = NoFinS,
                            !.cfgSet = FALSE, !.hdr = EmptyHdrS(0, 0), !.q = IF clear THEN <<>> ELSE @,
                            !.nready = IF clear THEN 0 ELSE @]]

\* ---- PDUs (plen: encoded length predicted by PduLayout; rt: packs and parses back) ----
HdrDir(h, d) == [h EXCEPT !.dir = d]
MkMD(c, cfg) ==
  LET r == c.h.req
      hd == HdrDir(c.h.hdr, "TR")
      \* options in the order of _prepare_metadata_pdu: filestore requests, fault handler overrides, flow label (r.xopts,
      \* already in that order), then the messages to the user
      opts == r.xopts \o [i \in DOMAIN r.msgs |-> [t |-> 2, v |-> r.msgs[i]]] IN
  IF r.mdOnly THEN [h |-> hd, t |-> "MD", closure |-> c.h.closure, chkType |-> "NULL", size |-> 0, srcName |-> "none",
                    srcBase |-> "none", dstName |-> "none", opts |-> opts, plen |-> LenMD0(hd, opts), rt |-> "ok"]
  ELSE [h |-> hd, t |-> "MD", closure |-> c.h.closure, chkType |-> cfg.chk, size |-> c.h.fileSize, srcName |-> r.srcName,
        srcBase |-> r.srcBase, dstName |-> r.dstName, opts |-> opts, plen |-> LenMD0(hd, opts), rt |-> "ok"]
FileSlice(f, off, n) == SubSeq(f, off + 1, SMin(off + n, Len(f)))
MkFD(c, off, n) ==
  LET hd == HdrDir(c.h.hdr, "TR")  d == FileSlice(c.h.file, off, n) IN
  [h |-> hd, t |-> "FD", off |-> off, data |-> d, segmeta |-> FALSE, plen |-> LenFD(hd, Len(d)), rt |-> "ok"]
MkEOF(c, cfg, chk) ==
  LET hd == HdrDir(c.h.hdr, "TR") IN
  [h |-> hd, t |-> "EOF", cond |-> c.h.eofCond, size |-> c.h.progress, chk |-> chk, floc |-> [set |-> FALSE, v |-> <<>>],
   plen |-> LenEOF(hd, -1), rt |-> "ok"]
MkAckFin(c, cond) ==
  LET hd == HdrDir(c.h.hdr, "TR") IN
  [h |-> hd, t |-> "ACK", acked |-> "FIN", cond |-> cond, tstat |-> "ACTIVE", plen |-> LenACK(hd), rt |-> "ok"]

\* _checksum_calculation(size): NativeFilestore.calculate_checksum
ChecksumS(c, cfg, size) ==
  IF c.h.req.mdOnly THEN [c |-> c, v |-> <<0, 0>>]    \* metadata only: no file data, null checksum
  ELSE IF cfg.chk # "NULL" /\ cfg.chk # "MODULAR" /\ c.h.segLen = 0 THEN [c |-> ExcS(c, "ValueError"), v |-> <<0, 0>>]
  ELSE [c |-> c, v |-> FileChecksum(cfg.chk, c.h.file, size)]

\* _prepare_eof_pdu
PrepareEof(c, cfg, size) ==
  LET k == ChecksumS(c, cfg, size) IN
  IF k.c.exc # "none" THEN k.c
  ELSE LET c1 == EmitS(c, MkEOF(c, cfg, k.v)) IN
       IF cfg.indS.eofSent THEN IndS(c1, [k |-> "eof_sent", tid |-> TidS(c.h)]) ELSE c1
\* _start_positive_ack_procedure
StartAck(c) == [c EXCEPT !.h.step = "WAITING_FOR_EOF_ACK", !.h.ackT = [armed |-> TRUE, start |-> c.now], !.h.ackCnt = 0]
\* _handle_eof_sent(cancel_eof)
EofSent(c, cfg, cancelEof) ==
  IF c.h.hdr.mode = "ACK" THEN StartAck(c)
  ELSE IF cancelEof THEN ResetS(c, FALSE)
  ELSE IF c.h.closure THEN [c EXCEPT !.h.step = "WAITING_FOR_FINISHED", !.h.chkT = [armed |-> TRUE, start |-> c.now]]
  ELSE StepS(c, "NOTICE_OF_COMPLETION")

\* _notice_of_cancellation(cond) -> [c, cont]
NoticeOfCancellation(c, cfg, cond) ==
  IF c.h.eofCond # "none" /\ c.h.eofCond # "NO_ERROR"
  THEN \* CFDP 4.11.2.2.3: a fault while the EOF (cancel) is being transferred -> abandon
       [c |-> ResetS(FltS(c, [k |-> "abandon", tid |-> TidS(c.h), cond |-> c.h.eofCond, prog |-> c.h.progress]), TRUE),
        cont |-> FALSE]
  ELSE LET c1 == [c EXCEPT !.h.eofCond = cond]
           c2 == PrepareEof(c1, cfg, c1.h.progress) IN
       IF c2.exc # "none" THEN [c |-> c2, cont |-> FALSE]
       ELSE [c |-> EofSent(c2, cfg, TRUE), cont |-> TRUE]
\* _declare_fault(cond)
DeclareFaultS(c, cfg, cond) ==
  LET code == cfg.fhS[cond]
      tid == TidS(c.h)
      prog == c.h.progress
      rep(x) == FltS(x, [k |-> code, tid |-> tid, cond |-> cond, prog |-> prog]) IN
  IF code = "cancel" THEN LET r == NoticeOfCancellation(c, cfg, cond) IN IF r.cont THEN rep(r.c) ELSE r.c
  ELSE IF code = "abandon" THEN rep(ResetS(c, TRUE))
  ELSE rep(c)

\* _fsm_advancement_after_packets_were_sent
AdvanceS(c) ==
  IF c.h.q # <<>> THEN ExcS(c, "UnretrievedPdusToBeSent")
  ELSE IF c.h.step = "SENDING_METADATA" THEN StepS(c, "SENDING_FILE_DATA")
  ELSE IF c.h.step = "RETRANSMITTING" THEN
       (IF c.h.stepBefore = "none" THEN ExcS(c, "AssertionError") ELSE StepS(c, c.h.stepBefore))
  ELSE IF c.h.step = "SENDING_FILE_DATA" THEN
       (IF c.h.progress = c.h.fileSize THEN [c EXCEPT !.h.eofCond = "NO_ERROR", !.h.step = "SENDING_EOF"] ELSE c)
  ELSE IF c.h.step = "SENDING_ACK_OF_FINISHED" THEN StepS(c, "NOTICE_OF_COMPLETION")
  ELSE c

\* _check_for_originating_id: reserved CFDP messages "cfdp" <type> ...; originating id = type 0x0A, proxy put response 0x07
IsReserved(m) == Len(m) >= 5 /\ SubSeq(m, 1, 4) = <<99, 102, 100, 112>>
BytesVal(b) == LET RECURSIVE V(_, _) V(i, acc) == IF i > Len(b) THEN acc ELSE V(i + 1, acc * 256 + b[i]) IN V(1, 0)
OrigOf(m) == \* m: reserved message of type 0x0A with a well-formed value
  LET sl == ((m[6] \div 16) % 8) + 1   ql == (m[6] % 8) + 1 IN
  [set |-> TRUE, src |-> BytesVal(SubSeq(m, 7, 6 + sl)), seq |-> BytesVal(SubSeq(m, 7 + sl, 6 + sl + ql))]
Originating(msgs) ==
  LET res == { i \in DOMAIN msgs : IsReserved(msgs[i]) }
      hasResp == \E i \in res : msgs[i][5] = 7
      origs == { i \in res : msgs[i][5] = 10 } IN
  IF hasResp \/ origs = {} THEN NoTidS
  ELSE OrigOf(msgs[CHOOSE i \in origs : \A j \in origs : j <= i])   \* the last one wins

\* _transaction_start: _prepare_file_params, _prepare_pdu_conf, _get_next_transfer_seq_num, _calculate_max_file_seg_len
TransactionStart(c, cfg) ==
  LET r == c.h.req IN
  IF ~r.mdOnly /\ ~r.exists THEN ExcS(c, "SourceFileDoesNotExist")
  ELSE
  LET size == Len(c.h.file)
      w == SMax(cfg.sIdW, r.dIdW)
      hd == [dir |-> "TR", mode |-> c.h.hdr.mode, crc |-> cfg.crc, lf |-> FALSE, sw |-> w, sv |-> cfg.sId, dw |-> w,
             dv |-> r.dId, qw |-> cfg.seqW, qv |-> c.h.seqNext]
      derived == MaxSegLen(hd, cfg.maxPkt)
      seg == IF cfg.segLen # 0 /\ cfg.segLen < derived THEN cfg.segLen ELSE derived
      c1 == [c EXCEPT !.h.mdOnly = r.mdOnly, !.h.emptyFile = (~r.mdOnly /\ size = 0),
                      !.h.fileSize = IF r.mdOnly THEN @ ELSE size,
                      !.h.hdr = hd, !.h.seqNext = (@ + 1) % (IF cfg.seqW = 1 THEN 256 ELSE IF cfg.seqW = 2 THEN 65536 ELSE 2147483647),
                      !.h.segLen = seg, !.h.hasTid = TRUE, !.h.tseq = c.h.seqNext]
  IN IndS(c1, [k |-> "transaction", tid |-> TidS(c1.h), orig |-> Originating(r.msgs)])

\* _handle_segment_req / __handle_retransmission -> [c, did]
RECURSIVE RetxChunks(_, _, _)
RetxChunks(c, off, left) ==
  IF left <= 0 THEN c
  ELSE LET n == SMin(left, c.h.segLen) IN
       IF n <= 0 THEN c   \* segment length 0: the code would loop forever; configurations exclude it
       ELSE RetxChunks(EmitS(c, MkFD(c, off, n)), off + n, left - n)
RECURSIVE RetxReqs(_, _, _)
RetxReqs(c, cfg, rs) ==
  IF rs = <<>> \/ c.exc # "none" THEN c
  ELSE LET r == Head(rs) IN
       IF r[1] = 0 /\ r[2] = 0 THEN RetxReqs(EmitS(c, MkMD(c, cfg)), cfg, Tail(rs))
       ELSE IF r[2] < r[1] \/ r[1] > c.h.progress \/ r[2] > c.h.progress THEN ExcS(c, "InvalidNakPdu")
       ELSE RetxReqs(RetxChunks(c, r[1], r[2] - r[1]), cfg, Tail(rs))
Retransmission(c, cfg, pkt) ==
  IF pkt.t # "NAK" THEN [c |-> c, did |-> FALSE]
  ELSE LET c1 == RetxReqs(c, cfg, pkt.reqs) IN
       IF c1.exc # "none" THEN [c |-> c1, did |-> TRUE]
       ELSE [c |-> [c1 EXCEPT !.h.stepBefore = c.h.step, !.h.step = "RETRANSMITTING"], did |-> TRUE]

\* _sending_file_data_fsm: stop = "return True"
SendingFileData(c, cfg, pkt) ==
  LET r == IF c.h.hdr.mode = "ACK" THEN Retransmission(c, cfg, pkt) ELSE [c |-> c, did |-> FALSE] IN
  IF r.did THEN StopS(r.c)
  ELSE IF ~c.h.mdOnly /\ c.h.progress < c.h.fileSize THEN
       \* _prepare_progressing_file_data_pdu
       LET n == IF c.h.fileSize < c.h.segLen THEN c.h.fileSize
                ELSE IF c.h.progress + c.h.segLen > c.h.fileSize THEN c.h.fileSize - c.h.progress ELSE c.h.segLen
           c1 == EmitS(c, MkFD(c, c.h.progress, n))
       IN StopS([c1 EXCEPT !.h.progress = @ + n])
  ELSE IF c.h.emptyFile THEN [c EXCEPT !.h.eofCond = "NO_ERROR", !.h.step = "SENDING_EOF"]
  ELSE IF c.h.mdOnly THEN StepS(c, IF c.h.closure THEN "WAITING_FOR_FINISHED" ELSE "NOTICE_OF_COMPLETION")
  ELSE c

\* _handle_positive_ack_procedures
PositiveAckS(c, cfg) ==
  IF ~c.h.ackT.armed THEN ExcS(c, "AssertionError")
  ELSE IF ExpiredS(c.h.ackT, c.now, cfg.ackInt) THEN
     IF c.h.ackCnt + 1 >= cfg.ackLim THEN DeclareFaultS(c, cfg, "POSITIVE_ACK_LIMIT_REACHED")
     ELSE PrepareEof([c EXCEPT !.h.ackT.start = c.now, !.h.ackCnt = @ + 1], cfg, c.h.progress)
  ELSE c
\* _handle_waiting_for_ack
WaitingForAck(c, cfg, pkt) ==
  LET r == Retransmission(c, cfg, pkt) IN
  IF r.did THEN StopS(r.c)
  \* a Finished PDU implies that the EOF PDU was received (its ACK was lost): handled by the next step in the same call
  ELSE IF pkt.t = "FIN" THEN StepS(c, "WAITING_FOR_FINISHED")
  ELSE IF pkt.t # "ACK" THEN StopS(PositiveAckS(c, cfg))
  ELSE IF pkt.acked = "EOF" THEN StepS(c, "WAITING_FOR_FINISHED")
  ELSE c
\* _handle_wait_for_finish
WaitForFinish(c, cfg, pkt) ==
  LET r == IF c.h.hdr.mode = "ACK" THEN Retransmission(c, cfg, pkt) ELSE [c |-> c, did |-> FALSE] IN
  IF r.did THEN StopS(r.c)
  ELSE IF pkt.t # "FIN" THEN
       (IF c.h.chkT.armed /\ ExpiredS(c.h.chkT, c.now, cfg.chkInt)
        THEN StopS(DeclareFaultS(c, cfg, "CHECK_LIMIT_REACHED")) ELSE StopS(c))
  ELSE LET c1 == [c EXCEPT !.h.fin = [set |-> TRUE, cond |-> pkt.cond, deliv |-> pkt.deliv, fstat |-> pkt.fstat]] IN
       IF c.h.hdr.mode = "ACK" THEN StepS(EmitS(c1, MkAckFin(c1, pkt.cond)), "SENDING_ACK_OF_FINISHED")
       ELSE StepS(c1, "NOTICE_OF_COMPLETION")
\* _notice_of_completion
NoticeOfCompletionS(c, cfg) ==
  LET c1 == IF cfg.indS.finished
            THEN IndS(c, [k |-> "finished", tid |-> TidS(c.h), cond |-> c.h.fin.cond, deliv |-> c.h.fin.deliv,
                          fstat |-> c.h.fin.fstat]) ELSE c
  IN ResetS(c1, FALSE)

\* _fsm_non_idle
NonIdleS(c0, cfg, pkt) ==
  LET S1(c) == IF ~c.h.put THEN StopS(c) ELSE c
      S2(c) == IF c.h.step = "IDLE" THEN StepS(c, "TRANSACTION_START") ELSE c
      S3(c) == IF c.h.step = "TRANSACTION_START"
               THEN ThenS(TransactionStart(c, cfg), LAMBDA x : StepS(x, "SENDING_METADATA")) ELSE c
      S4(c) == IF c.h.step = "SENDING_METADATA" THEN StopS(EmitS(c, MkMD(c, cfg))) ELSE c
      S5(c) == IF c.h.step = "SENDING_FILE_DATA" THEN SendingFileData(c, cfg, pkt) ELSE c
      S6(c) == IF c.h.step = "SENDING_EOF"
               THEN ThenS(PrepareEof(c, cfg, c.h.fileSize), LAMBDA x : EofSent(x, cfg, FALSE)) ELSE c
      S7(c) == IF c.h.step = "WAITING_FOR_EOF_ACK" THEN WaitingForAck(c, cfg, pkt) ELSE c
      S8(c) == IF c.h.step = "WAITING_FOR_FINISHED" THEN WaitForFinish(c, cfg, pkt) ELSE c
      S9(c) == IF c.h.step = "NOTICE_OF_COMPLETION" THEN NoticeOfCompletionS(c, cfg) ELSE c
  IN ThenS(ThenS(ThenS(ThenS(ThenS(ThenS(ThenS(ThenS(ThenS(ThenS(c0, AdvanceS), S1), S2), S3), S4), S5), S6), S7), S8), S9)

\* _check_inserted_packet: the order of the checks is observable through the exception class
AdmitS(h, cfg, pkt) ==
  IF pkt.h.dir # "TS" THEN <<"InvalidPduDirection", "none">>
  ELSE IF pkt.h.sv # cfg.sId THEN <<"InvalidSourceId", "none">>
  ELSE IF ~h.cfgSet THEN <<"NoRemoteEntityCfgFound", "none">>
  ELSE IF pkt.h.dv # h.req.dId THEN <<"InvalidDestinationId", "none">>
  ELSE IF pkt.h.qv # h.hdr.qv THEN <<"InvalidTransactionSeqNum", "none">>
  ELSE IF pkt.t \in {"FD", "MD", "EOF", "PROMPT"} \/ (pkt.t = "ACK" /\ pkt.acked = "FIN") THEN <<"InvalidPduForSourceHandler", "none">>
  ELSE IF h.hdr.mode = "UNACK" /\ pkt.t \in {"KA", "NAK"} THEN <<"PduIgnoredForSource", "ACK_MODE_PACKET_INVALID_MODE">>
  ELSE IF pkt.t # "NAK" /\ h.step = "WAITING_FOR_EOF_ACK" /\ pkt.t \notin {"ACK", "FIN"} THEN <<"PduIgnoredForSource", "NOT_WAITING_FOR_ACK">>
  ELSE IF pkt.t # "NAK" /\ h.step = "WAITING_FOR_FINISHED" /\ pkt.t # "FIN" THEN <<"PduIgnoredForSource", "NOT_WAITING_FOR_FINISHED_PDU">>
  ELSE <<"none", "none">>

\* ---- the public calls ----
SrcFsm(h, cfg, pkt, now) ==
  LET a == IF pkt.t = "none" THEN <<"none", "none">> ELSE AdmitS(h, cfg, pkt) IN
  IF a[1] # "none" THEN ExcRS(CtxS(h, now), a[1], a[2])
  ELSE IF h.state = "IDLE" THEN CtxS(h, now)
  ELSE NonIdleS(CtxS(h, now), cfg, pkt)

\* put_request(req): req = the request as projected by the harness (incl. what the filestore and the MIB answer)
SrcPut(h, cfg, req, now) ==
  IF h.state # "IDLE" THEN [CtxS(h, now) EXCEPT !.ret = "false"]
  ELSE LET h1 == [h EXCEPT !.put = TRUE, !.req = [f \in DOMAIN NoReqS |-> req[f]], !.file = req.data] IN
       IF ~req.mdOnly /\ ~req.exists THEN ExcS(CtxS(h1, now), "SourceFileDoesNotExist")
       ELSE IF ~req.known THEN ExcS(CtxS([h1 EXCEPT !.cfgSet = FALSE], now), "NoRemoteEntityCfgFound")
       ELSE LET mode == IF req.mode = "none" THEN cfg.mode ELSE req.mode
                clo == IF req.closure = "none" THEN cfg.closure ELSE req.closure = "true" IN
            [CtxS([h1 EXCEPT !.cfgSet = TRUE, !.hdr.dw = req.dIdW, !.hdr.dv = req.dId, !.nready = 0, !.state = "BUSY",
                             !.hdr.mode = mode, !.closure = clo], now) EXCEPT !.ret = "true"]

\* cancel_request(id); right: id equals the current transaction id
SrcCancel(h, cfg, right, now) ==
  IF h.nready > 0 THEN ExcS(CtxS(h, now), "UnretrievedPdusToBeSent")
  ELSE IF h.hasTid /\ right THEN
       LET r == NoticeOfCancellation(CtxS(h, now), cfg, "CANCEL_REQUEST_RECEIVED") IN
       IF r.c.exc # "none" THEN r.c ELSE [r.c EXCEPT !.ret = "true"]
  ELSE [CtxS(h, now) EXCEPT !.ret = "false"]

\* reset()
SrcReset(h, now) == ResetS(CtxS(h, now), TRUE)

\* get_next_packet, n times (n < 0: until empty): [h, out]
SrcDrain(h, n) ==
  LET k == IF n < 0 \/ n > Len(h.q) THEN Len(h.q) ELSE n IN
  [h |-> [h EXCEPT !.q = SubSeq(@, k + 1, Len(@)), !.nready = @ - k], out |-> SubSeq(h.q, 1, k)]

\* environment: the source file changes on disk (C09: checksum covers the bytes sent)
SrcFileChange(h, data) == [h EXCEPT !.file = data]

\* the public observation of the handler
PubS(h) == [state |-> h.state, step |-> h.step, progress |-> h.progress, fileSize |-> h.fileSize, nready |-> h.nready,
            tidSet |-> h.hasTid, tseq |-> h.tseq, ackCnt |-> h.ackCnt, qlen |-> Len(h.q)]
====

SPECIFICATION Spec
CONSTANT MaxOff = 5
CONSTANT EmitTransitions = FALSE
INVARIANT Exact
INVARIANT WellFormed
INVARIANT AfterCoalesce
PROPERTY StepProps
CHECK_DEADLOCK FALSE

---- MODULE MC_Solo ----
(***************************************************************************)
(* Input universes for the single-handler adversarial model Solo.tla.      *)
(* Cats selects the categories of inputs offered at every step.            *)
(***************************************************************************)
EXTENDS Solo, CfdpCfg
CONSTANTS Cats,    \* categories of inputs offered at every step ...
          Pre      \* ... after a prefix: Pre[k] = the categories offered at step k (sequence of sets)
Mx(a, b) == IF a > b THEN a ELSE b
HdrTo(c, dir, mode) == LET w == Mx(c.sIdW, c.dIdW) IN
  [dir |-> dir, mode |-> mode, crc |-> c.crc, lf |-> FALSE, sw |-> w, sv |-> c.sId, dw |-> w, dv |-> c.dId, qw |-> c.seqW, qv |-> c.seq0]
NoFlocM == [set |-> FALSE, v |-> <<>>]
Fsm(a) == [k |-> "fsm", a |-> a, w |-> FALSE]
NSeg(c) == (Len(c.file) + c.segLen - 1) \div c.segLen

\* ---- destination ----
DMd(c, h) == [h |-> h, t |-> "MD", closure |-> c.closure, chkType |-> c.chk, size |-> Len(c.file), srcName |-> "s/" \o c.srcName,
              dstName |-> "d/" \o c.dstName, srcBase |-> c.srcName, opts |-> <<>>]
DMdOnly(c, h) == [h |-> h, t |-> "MD", closure |-> c.closure, chkType |-> "NULL", size |-> 0, srcName |-> "none",
                  dstName |-> "none", srcBase |-> "none", opts |-> <<>>]
DFd(c, h, off, n) == [h |-> h, t |-> "FD", off |-> off, data |-> SubSeq(c.file \o <<7, 7, 7, 7>>, off + 1, off + n), segmeta |-> FALSE]
DEof(c, h, cond, size, good) ==
  [h |-> h, t |-> "EOF", cond |-> cond, size |-> size,
   chk |-> IF good THEN FileChecksum(c.chk, c.file, size) ELSE <<1, 2>>,
   floc |-> IF cond = "NO_ERROR" THEN NoFlocM ELSE [set |-> TRUE, v |-> <<0, 1>>]]
DAck(h, acked) == [h |-> h, t |-> "ACK", acked |-> acked, cond |-> "NO_ERROR", tstat |-> "ACTIVE"]
DstInputs(c, xs, xd, cats) ==
  LET h == HdrTo(c, "TR", c.mode)
      n == Len(c.file) IN
  (IF "md" \in cats THEN {Fsm(DMd(c, h))} ELSE {})
  \cup (IF "mdonly" \in cats THEN {Fsm(DMdOnly(c, h))} ELSE {})
  \cup (IF "fd" \in cats THEN { Fsm(DFd(c, h, (k - 1) * c.segLen, IF k * c.segLen > n THEN n - (k - 1) * c.segLen ELSE c.segLen)) : k \in 1..NSeg(c) } ELSE {})
  \cup (IF "fdodd" \in cats THEN { Fsm(DFd(c, h, o, l)) : o \in {1, n}, l \in {0, 2} } ELSE {})
  \cup (IF "wrej" \in cats THEN { [k |-> "fsm", a |-> DFd(c, h, 0, c.segLen), w |-> TRUE] } ELSE {})
  \cup (IF "mdwrej" \in cats THEN { [k |-> "fsm", a |-> DMd(c, h), w |-> TRUE] } ELSE {})   \* create / truncate refused
  \cup (IF "eof" \in cats THEN {Fsm(DEof(c, h, "NO_ERROR", n, TRUE))} ELSE {})
  \cup (IF "eofodd" \in cats THEN {Fsm(DEof(c, h, "NO_ERROR", n, FALSE)), Fsm(DEof(c, h, "NO_ERROR", IF n > 0 THEN n - 1 ELSE 1, TRUE))} ELSE {})
  \cup (IF "eofbad" \in cats THEN {Fsm(DEof(c, h, "NO_ERROR", n, FALSE))} ELSE {})      \* right size, wrong checksum
  \cup (IF "eofcancel" \in cats THEN {Fsm(DEof(c, h, "CANCEL_REQUEST_RECEIVED", IF n > 1 THEN n - 1 ELSE n, TRUE))} ELSE {})
  \cup (IF "ack" \in cats THEN {Fsm(DAck(h, "FIN"))} ELSE {})
  \cup (IF "poll" \in cats THEN {Fsm(None)} ELSE {})
  \cup (IF "tick" \in cats THEN {[k |-> "tick", a |-> [dt |-> 1000], w |-> FALSE]} ELSE {})
  \cup (IF "tick400" \in cats THEN {[k |-> "tick", a |-> [dt |-> 400], w |-> FALSE]} ELSE {})
  \cup (IF "cancel" \in cats THEN {[k |-> "cancel", a |-> [t |-> "cancel", right |-> TRUE], w |-> FALSE]} ELSE {})
  \cup (IF "cancelwrong" \in cats THEN {[k |-> "cancel", a |-> [t |-> "cancel", right |-> FALSE], w |-> FALSE]} ELSE {})
  \cup (IF "reset" \in cats THEN {[k |-> "reset", a |-> [t |-> "reset"], w |-> FALSE]} ELSE {})
  \cup (IF "lazy" \in cats THEN {[k |-> "lazy", a |-> None, w |-> FALSE]} ELSE {})
  \cup (IF "alien" \in cats THEN
          { Fsm(DAck(h, "EOF")), Fsm([h |-> h, t |-> "NAK", sos |-> 0, eos |-> 1, reqs |-> << <<0, 1>> >>]),
            Fsm([h |-> h, t |-> "FIN", cond |-> "NO_ERROR", deliv |-> "DATA_COMPLETE", fstat |-> "FILE_RETAINED", floc |-> NoFlocM]),
            Fsm([h |-> h, t |-> "KA", progress |-> 1]), Fsm([h |-> h, t |-> "PROMPT", resp |-> 0]),
            Fsm(DMd(c, [h EXCEPT !.dir = "TS"])), Fsm(DFd(c, [h EXCEPT !.dv = @ + 1], 0, 1)), Fsm(DEof(c, [h EXCEPT !.sv = @ + 1], "NO_ERROR", n, TRUE)),
            Fsm(DFd(c, [h EXCEPT !.mode = IF c.mode = "ACK" THEN "UNACK" ELSE "ACK"], 0, 1)) } ELSE {})
  \* PDUs of ANOTHER transaction of the same sender (next sequence number): the receiver does not tell them apart
  \cup (IF "stale" \in cats THEN
          { Fsm(DFd(c, [h EXCEPT !.qv = @ + 1], 0, 1)), Fsm(DEof(c, [h EXCEPT !.qv = @ + 1], "NO_ERROR", n, TRUE)),
            Fsm(DMd(c, [h EXCEPT !.qv = @ + 1])), Fsm(DAck([h EXCEPT !.qv = @ + 1], "FIN")) } ELSE {})

\* ---- source ----
SReq(c, exists, known, mode, closure) ==
  [t |-> "put", mdOnly |-> c.mdOnly, mode |-> mode, closure |-> closure, exists |-> exists /\ ~c.mdOnly,
   data |-> IF c.mdOnly \/ ~exists THEN <<>> ELSE c.file,
   srcName |-> IF c.mdOnly THEN "none" ELSE "s/" \o c.srcName, srcBase |-> IF c.mdOnly THEN "none" ELSE c.srcName,
   dstName |-> IF c.mdOnly THEN "none" ELSE "d/" \o c.dstName, dIdW |-> c.dIdW, dId |-> c.dId, known |-> known, msgs |-> c.msgs, xopts |-> c.xopts]
Put(r) == [k |-> "put", a |-> r, w |-> FALSE]
SrcInputs(c, xs, xd, cats) ==
  LET mode == IF xs.state = "BUSY" THEN xs.hdr.mode ELSE c.mode
      h == [HdrTo(c, "TS", mode) EXCEPT !.qv = IF xs.hasTid THEN xs.tseq ELSE c.seq0]
      n == Len(c.file) IN
  (IF "put" \in cats THEN {Put(SReq(c, TRUE, TRUE, c.putMode, c.putClosure))} ELSE {})
  \cup (IF "putodd" \in cats THEN {Put(SReq(c, FALSE, TRUE, "none", "none")), Put(SReq(c, TRUE, FALSE, "none", "none")),
                                  Put(SReq(c, TRUE, TRUE, "UNACK", "true")), Put(SReq(c, TRUE, TRUE, "ACK", "false"))} ELSE {})
  \cup (IF "poll" \in cats THEN {Fsm(None)} ELSE {})
  \cup (IF "tick" \in cats THEN {[k |-> "tick", a |-> [dt |-> 1000], w |-> FALSE]} ELSE {})
  \cup (IF "tick400" \in cats THEN {[k |-> "tick", a |-> [dt |-> 400], w |-> FALSE]} ELSE {})
  \cup (IF "nak" \in cats THEN { Fsm([h |-> h, t |-> "NAK", sos |-> 0, eos |-> n, reqs |-> rq]) :
                                 rq \in { << <<0, 0>> >>, << <<0, 1>> >>, << <<0, 0>>, <<1, n>> >>, << <<1, 2>>, <<0, 1>> >> } } ELSE {})
  \cup (IF "nakodd" \in cats THEN { Fsm([h |-> h, t |-> "NAK", sos |-> 0, eos |-> n, reqs |-> rq]) :
                                    rq \in { << <<2, 1>> >>, << <<0, n + 1>> >>, << <<1, 1>> >>, << <<n, n + 2>> >>, <<>> } } ELSE {})
  \cup (IF "ack" \in cats THEN {Fsm([h |-> h, t |-> "ACK", acked |-> "EOF", cond |-> "NO_ERROR", tstat |-> "ACTIVE"])} ELSE {})
  \cup (IF "fin" \in cats THEN {Fsm([h |-> h, t |-> "FIN", cond |-> "NO_ERROR", deliv |-> "DATA_COMPLETE", fstat |-> "FILE_RETAINED", floc |-> NoFlocM])} ELSE {})
  \cup (IF "cancel" \in cats THEN {[k |-> "cancel", a |-> [t |-> "cancel", right |-> TRUE], w |-> FALSE]} ELSE {})
  \cup (IF "cancelwrong" \in cats THEN {[k |-> "cancel", a |-> [t |-> "cancel", right |-> FALSE], w |-> FALSE]} ELSE {})
  \cup (IF "reset" \in cats THEN {[k |-> "reset", a |-> [t |-> "reset"], w |-> FALSE]} ELSE {})
  \cup (IF "lazy" \in cats THEN {[k |-> "lazy", a |-> None, w |-> FALSE]} ELSE {})
  \cup (IF "alien" \in cats THEN
          { Fsm([h |-> h, t |-> "ACK", acked |-> "FIN", cond |-> "NO_ERROR", tstat |-> "ACTIVE"]), Fsm([h |-> h, t |-> "KA", progress |-> 1]),
            Fsm([h |-> h, t |-> "PROMPT", resp |-> 0]), Fsm(DFd(c, h, 0, 1)), Fsm(DEof(c, h, "NO_ERROR", n, TRUE)),
            Fsm([h |-> [h EXCEPT !.dir = "TR"], t |-> "NAK", sos |-> 0, eos |-> n, reqs |-> << <<0, 1>> >>]),
            Fsm([h |-> [h EXCEPT !.qv = @ + 1], t |-> "NAK", sos |-> 0, eos |-> n, reqs |-> << <<0, 1>> >>]),
            Fsm([h |-> [h EXCEPT !.dv = @ + 1], t |-> "ACK", acked |-> "EOF", cond |-> "NO_ERROR", tstat |-> "ACTIVE"]) } ELSE {})
Inputs(c, xs, xd) == LET cats == IF Len(ins) < Len(Pre) THEN Pre[Len(ins) + 1] ELSE Cats IN
                     IF Side = "S" THEN SrcInputs(c, xs, xd, cats) ELSE DstInputs(c, xs, xd, cats)

SoloBase(L, seg, n) == [DefaultCfg EXCEPT !.segLen = seg, !.ackLim = L, !.nakLim = L, !.chkLim = L, !.file = FileOf(n)]
SoloFam(L, seg, sizes, modes, chks) ==
  Numbered({ [SoloBase(L, seg, n) EXCEPT !.mode = m, !.closure = c, !.immNak = i, !.chk = k, !.disp = d] :
             n \in sizes, m \in modes, c \in BOOLEAN, i \in BOOLEAN, k \in chks, d \in BOOLEAN })
PrintCfgs(set) == PrintT(<<"CFGS", set>>)
====

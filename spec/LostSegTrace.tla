---- MODULE LostSegTrace ----
(***************************************************************************)
(* C18, code -> spec: validates executions recorded from the real          *)
(* LostSegmentTracker.  For each trace TLC carries the ghost byte set and  *)
(* the specification's tracker state, evaluates the property clauses on    *)
(* the OBSERVED values (monitor) and compares observed with predicted      *)
(* values (conformance).  One VERDICT line per trace.                      *)
(* Trace: [tid, n (max offset), pre (Seq of <<s,e>>), ops (Seq of          *)
(*         [op, s, e, ret ("true"|"false"|"none"), exc ("none"|name), segs])]*)
(***************************************************************************)
EXTENDS LostSegOps, TLC, Json, IOUtils
Traces == JsonDeserialize(IOEnv.TRACE_FILE)
VARIABLES tid, l, ghost, sp, ob, res
vars == <<tid, l, ghost, sp, ob, res>>
T == Traces[tid]
N == T.n
Tup(s) == [i \in DOMAIN s |-> <<s[i][1], s[i][2]>>]
Init == /\ tid \in 1..Len(Traces) /\ l = 1
        /\ sp = Tup(Traces[tid].pre) /\ ob = Tup(Traces[tid].pre)
        /\ ghost = LsDenote(Tup(Traces[tid].pre), Traces[tid].n)
        /\ res = [k |-> "running", viol |-> {}, drift |-> {}, at |-> 0]
M(n, b) == IF b THEN {n} ELSE {}
Rng(s, e) == LsRange(s, e, N)
WellFormed(q) == \A i \in DOMAIN q : q[i][1] < q[i][2] /\ (i > 1 => q[i-1][2] <= q[i][1])
NoAdjacent(q) == \A i \in 2..Len(q) : q[i-1][2] < q[i][1]
Straddles(q, s, e) == s < e /\ \E p \in LsAsSet(q) : p[1] <= s /\ s < p[2] /\ e > p[2]
\* precondition of the property statement, evaluated on the ghost set and the previous observed state
PreOk(o) == CASE o.op = "add" -> o.s < o.e /\ Rng(o.s, o.e) \cap ghost = {}
              [] o.op = "remove" -> o.s <= o.e /\ ( (\E p \in LsAsSet(ob) : p[1] <= o.s /\ o.e <= p[2])
                                                   \/ Rng(o.s, o.e) \cap ghost = {} \/ Straddles(ob, o.s, o.e) )
              [] OTHER -> TRUE
Step ==
  /\ res.k = "running" /\ l <= Len(T.ops)
  /\ LET o == T.ops[l]
         oseg == Tup(o.segs)
         strad == o.op = "remove" /\ Straddles(ob, o.s, o.e)
         g2 == IF o.op = "add" THEN ghost \cup Rng(o.s, o.e)
               ELSE IF o.op = "remove" /\ ~strad THEN ghost \ Rng(o.s, o.e) ELSE ghost
         \* ---- monitor: the property, on observed values only
         viol == M("denotation", LsDenote(oseg, N) # g2)
            \cup M("ascending-nonempty-disjoint", ~WellFormed(oseg))
            \cup M("coalesce-leaves-adjacent", o.op = "coalesce" /\ ~NoAdjacent(oseg))
            \cup M("coalesce-changes-set", o.op = "coalesce" /\ LsDenote(oseg, N) # LsDenote(ob, N))
            \cup M("remove-report", o.op = "remove" /\ o.exc = "none" /\ (o.ret = "true") # (oseg # ob))
            \cup M("straddle-not-refused", strad /\ o.exc # "ValueError")
            \cup M("straddle-changed-state", strad /\ oseg # ob)
            \cup M("undue-error", ~strad /\ o.exc # "none")
         \* ---- conformance with the precise specification
         r == IF o.op = "add" THEN [segs |-> LsAdd(sp, o.s, o.e), ret |-> "none", exc |-> "none"]
              ELSE IF o.op = "coalesce" THEN [segs |-> LsCoalesce(sp), ret |-> "none", exc |-> "none"]
              ELSE LET x == LsRemove(sp, o.s, o.e) IN
                   [segs |-> x.segs, ret |-> IF x.err THEN "none" ELSE IF x.changed THEN "true" ELSE "false",
                    exc |-> IF x.err THEN "ValueError" ELSE "none"]
         drift == M("segs", r.segs # oseg) \cup M("ret", r.ret # o.ret) \cup M("exc", r.exc # o.exc)
     IN IF ~PreOk(o) THEN res' = [res EXCEPT !.k = "precondition", !.at = l] /\ UNCHANGED <<l, ghost, sp, ob>>
        ELSE /\ res' = [res EXCEPT !.viol = @ \cup viol, !.drift = @ \cup drift,
                                   !.at = IF @ = 0 /\ (viol # {} \/ drift # {}) THEN l ELSE @]
             /\ l' = l + 1 /\ ghost' = g2 /\ ob' = oseg
             \* after a drift the specification follows the observed state so that later steps stay comparable
             /\ sp' = oseg
  /\ UNCHANGED tid
Finish == /\ (l > Len(T.ops) \/ res.k = "precondition") /\ res.k # "printed"
          /\ PrintT(<<"VERDICT", T.tid, res.k, res.viol, res.drift, res.at>>)
          /\ res' = [res EXCEPT !.k = "printed"] /\ UNCHANGED <<tid, l, ghost, sp, ob>>
Next == Step \/ Finish
Spec == Init /\ [][Next]_vars
====

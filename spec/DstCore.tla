---- MODULE DstCore ----
(***************************************************************************)
(* The DestHandler of cfdppy (handler/dest.py) as a deterministic          *)
(* transducer, in the same context-threading style as SrcCore.             *)
(*   h = [state, step, p (per-transaction parameters), q (queued PDUs),    *)
(*        fs (the destination filestore: set of [p, dir, d])]              *)
(*   c = [h, ind, flt, exc, excr, ret, now, stop, wrej, depth]             *)
(* Sub-steps mirror the methods of the code (names in comments).           *)
(***************************************************************************)
EXTENDS Naturals, Integers, Sequences, FiniteSets, Checksum, PduLayout, LostSegOps

DMin(a, b) == IF a < b THEN a ELSE b
DMax(a, b) == IF a > b THEN a ELSE b
NoTimerD == [armed |-> FALSE, start |-> 0]
NoTidD == [set |-> FALSE, src |-> 0, seq |-> 0]
NoHdrD == [dir |-> "TS", mode |-> "ACK", crc |-> FALSE, lf |-> FALSE, sw |-> 0, sv |-> 0, dw |-> 0, dv |-> 0, qw |-> 0, qv |-> 0]
NoFloc == [set |-> FALSE, v |-> <<>>]
\* _DestFieldWrapper()
FreshD ==
  [tid |-> NoTidD, hdr |-> NoHdrD, rcSet |-> FALSE, closure |-> FALSE, chkType |-> "NULL", progress |-> 0, fileSize |-> -1,
   crcSet |-> FALSE, crc |-> <<0, 0>>, eofSize |-> -1, mdOnly |-> FALSE, fname |-> "",
   cond |-> "NO_ERROR", deliv |-> "DATA_INCOMPLETE", fstat |-> "FILE_STATUS_UNREPORTED", floc |-> NoFloc,
   disp |-> "COMPLETED", mdMissing |-> FALSE, lastStart |-> 0, lastEnd |-> 0, deferred |-> FALSE,
   nakT |-> NoTimerD, nakCnt |-> 0, ackT |-> NoTimerD, ackCnt |-> 0, chkT |-> NoTimerD, chkCnt |-> 0, lost |-> <<>>]
InitD(fs) == [state |-> "IDLE", step |-> "IDLE", p |-> FreshD, q |-> <<>>, fs |-> fs]

CtxD(h, now, wrej) == [h |-> h, ind |-> <<>>, flt |-> <<>>, exc |-> "none", excr |-> "none", ret |-> "none", now |-> now,
                       stop |-> FALSE, wrej |-> wrej, depth |-> 0]
OkD(c) == ~c.stop /\ c.exc = "none"
ThenD(c, Op(_)) == IF OkD(c) THEN Op(c) ELSE c
EmitD(c, pdu) == [c EXCEPT !.h.q = Append(@, pdu)]
IndD(c, i) == [c EXCEPT !.ind = Append(@, i)]
ExcD(c, e) == [c EXCEPT !.exc = e]
ExcRD(c, e, r) == [c EXCEPT !.exc = e, !.excr = r]
StepD(c, s) == [c EXCEPT !.h.step = s]
\* the receiver's positive ACK interval (its remote-entity configuration for the sender): cfg.ackIntD, 0 = the sender's
AckIntD(cfg) == IF cfg.ackIntD = 0 THEN cfg.ackInt ELSE cfg.ackIntD
ExpiredD(t, now, int) == now - t.start >= int
\* _reset_internal(False): fresh parameters, idle; the queue is kept
ResetD(c) == [c EXCEPT !.h.p = FreshD, !.h.state = "IDLE", !.h.step = "IDLE"]

\* the transmission_mode property: None while the handler is idle (also right after an abandon inside a call)
ModeD(c) == IF c.h.state = "IDLE" THEN "none" ELSE c.h.p.hdr.mode

\* ---- filestore model (NativeFilestore semantics on the sandbox tree) ----
FsHas(fs, p) == \E f \in fs : f.p = p
FsGet(fs, p) == CHOOSE f \in fs : f.p = p
FsIsDir(fs, p) == \E f \in fs : f.p = p /\ f.dir
FsIsFile(fs, p) == \E f \in fs : f.p = p /\ ~f.dir
FsPut(fs, p, d) == { f \in fs : f.p # p } \cup { [p |-> p, dir |-> FALSE, d |-> d] }
FsDel(fs, p) == { f \in fs : f.p # p }
Zeros(n) == [i \in 1..n |-> 0]
WriteAt(data, off, d) ==
  IF d = <<>> THEN data
  ELSE LET base == IF Len(data) < off THEN data \o Zeros(off - Len(data)) ELSE data
           newLen == DMax(Len(base), off + Len(d))
       IN [i \in 1..newLen |-> IF i > off /\ i <= off + Len(d) THEN d[i - off] ELSE base[i]]

\* ---- PDUs ----
MkAckEof(c) == LET hd == c.h.p.hdr IN
  [h |-> hd, t |-> "ACK", acked |-> "EOF", cond |-> c.h.p.cond, tstat |-> "ACTIVE", plen |-> LenACK(hd), rt |-> "ok"]
MkNak(c, eos, reqs) == LET hd == c.h.p.hdr IN
  [h |-> hd, t |-> "NAK", sos |-> 0, eos |-> eos, reqs |-> reqs, plen |-> LenNAK(hd, Len(reqs)), rt |-> "ok"]
MkFin(c) == LET hd == c.h.p.hdr  p == c.h.p IN
  [h |-> hd, t |-> "FIN", cond |-> p.cond, deliv |-> p.deliv, fstat |-> p.fstat, floc |-> p.floc,
   plen |-> LenFIN(hd, IF p.floc.set THEN Len(p.floc.v) ELSE -1), rt |-> "ok"]
IdBytes(w, v) == [i \in 1..w |-> (v \div (256 ^ (w - i))) % 256]

\* ---- faults: _declare_fault, _notice_of_cancellation, _abandon_transaction ----
DeclareFaultD(c, cfg, cond) ==
  LET code == cfg.fhD[cond]
      tid == c.h.p.tid
      prog == c.h.p.progress IN
  IF ~tid.set THEN ExcD(c, "AssertionError")
  ELSE LET c1 == IF code = "cancel" THEN [c EXCEPT !.h.step = "TRANSFER_COMPLETION", !.h.p.cond = cond, !.h.p.disp = "CANCELED"]
                 ELSE IF code = "abandon" THEN ResetD(c) ELSE c
       IN [c1 EXCEPT !.flt = Append(@, [k |-> code, tid |-> tid, cond |-> cond, prog |-> prog])]

\* _checksum_verify -> [c, ok]
VerifyD(c, cfg) ==
  LET p == c.h.p
      done(x) == [x EXCEPT !.h.p.deliv = "DATA_COMPLETE", !.h.p.cond = "NO_ERROR"] IN
  IF p.chkType = "NULL" \/ p.mdOnly THEN [c |-> done(c), ok |-> TRUE]
  ELSE IF ~FsIsFile(c.h.fs, p.fname) THEN [c |-> ExcD(c, IF FsIsDir(c.h.fs, p.fname) \/ p.fname = "" THEN "IsADirectoryError" ELSE "FileNotFoundError"), ok |-> FALSE]
  ELSE LET crc == FileChecksum(p.chkType, FsGet(c.h.fs, p.fname).d, p.progress) IN
       IF p.crcSet /\ crc = p.crc THEN [c |-> done(c), ok |-> TRUE]
       ELSE [c |-> DeclareFaultD(c, cfg, "FILE_CHECKSUM_FAILURE"), ok |-> FALSE]

\* _file_transfer_complete_transition
CompleteTransition(c) ==
  IF ModeD(c) = "UNACK" THEN StepD(c, "TRANSFER_COMPLETION")
  ELSE IF ModeD(c) = "ACK" THEN StepD(EmitD(c, MkAckEof(c)), "SENDING_EOF_ACK_PDU")
  ELSE c

\* ---- deferred lost segment procedure ----
RECURSIVE NakSeq(_, _, _, _, _)
NakSeq(c, reqs, rest, max, eos) ==
  IF rest = <<>> THEN (IF reqs # <<>> THEN EmitD(c, MkNak(c, eos, reqs)) ELSE c)
  ELSE IF Len(reqs) = max THEN NakSeq(EmitD(c, MkNak(c, eos, reqs)), <<Head(rest)>>, Tail(rest), max, eos)
  ELSE NakSeq(c, Append(reqs, Head(rest)), Tail(rest), max, eos)
\* _deferred_lost_segment_handling
Deferred(c, cfg) ==
  LET p == c.h.p IN
  IF ~p.deferred THEN c
  ELSE IF p.lost = <<>> /\ ~p.mdMissing THEN
       LET v == VerifyD(c, cfg) IN
       IF v.c.exc # "none" \/ v.c.h.state = "IDLE" THEN v.c     \* (abandoned by the fault handler inside the verification)
       ELSE [v.c EXCEPT !.h.step = "TRANSFER_COMPLETION", !.h.p.deferred = FALSE]
  ELSE LET first == ~p.nakT.armed
           c1 == IF first THEN [c EXCEPT !.h.p.nakT = [armed |-> TRUE, start |-> c.now]] ELSE c IN
       IF ~first /\ ~ExpiredD(p.nakT, c.now, cfg.nakInt) THEN c
       ELSE IF ~first /\ p.nakCnt + 1 = cfg.nakLim THEN DeclareFaultD(c1, cfg, "NAK_LIMIT_REACHED")
       ELSE LET c2 == NakSeq(c1, IF p.mdMissing THEN << <<0, 0>> >> ELSE <<>>, p.lost,
                             MaxNakSegs(p.hdr, cfg.maxPkt), p.eofSize) IN
            IF first THEN c2 ELSE [c2 EXCEPT !.h.p.nakCnt = @ + 1, !.h.p.nakT.start = c.now]
\* _start_deferred_lost_segment_handling
StartDeferred(c, cfg) ==
  Deferred([c EXCEPT !.h.step = IF c.h.p.mdMissing THEN "WAITING_FOR_METADATA" ELSE "WAITING_FOR_MISSING_DATA",
                     !.h.p.deferred = TRUE, !.h.p.lost = LsCoalesce(@),
                     !.h.p.lastStart = c.h.p.eofSize, !.h.p.lastEnd = c.h.p.eofSize], cfg)
\* _reset_nak_activity_parameters
ResetNak(c) == IF ~c.h.p.nakT.armed THEN ExcD(c, "AssertionError") ELSE [c EXCEPT !.h.p.nakCnt = 0, !.h.p.nakT.start = c.now]

\* _fsm_advancement_after_packets_were_sent
AdvanceD(c, cfg) ==
  IF c.h.q # <<>> THEN ExcD(c, "UnretrievedPdusToBeSent")
  ELSE IF c.h.step = "SENDING_EOF_ACK_PDU" THEN
     IF (c.h.p.lost # <<>> \/ c.h.p.mdMissing) /\ c.h.p.disp # "CANCELED" THEN StartDeferred(c, cfg)
     ELSE LET c1 == IF c.h.p.disp # "CANCELED" THEN VerifyD(c, cfg).c ELSE c IN
          IF c1.exc # "none" THEN c1
          ELSE IF c1.h.state = "IDLE" THEN c1     \* abandoned by the fault handler inside the verification
          ELSE StepD(c1, "TRANSFER_COMPLETION")
  ELSE c

\* ---- file data ----
\* _lost_segment_handling
LostSegHandling(c, cfg, off, len) ==
  LET p == c.h.p
      gap == off > p.lastEnd
      c1 == IF gap THEN [c EXCEPT !.h.p.lost = LsAdd(@, p.lastEnd, off)] ELSE c
      c2 == IF gap /\ cfg.immNak THEN EmitD(c1, MkNak(c1, off + len, << <<p.lastEnd, off>> >>)) ELSE c1
      c3 == IF off >= p.lastEnd THEN [c2 EXCEPT !.h.p.lastStart = off, !.h.p.lastEnd = off + len] ELSE c2
  IN IF off + len <= c3.h.p.lastStart THEN
        LET r == LsRemove(c3.h.p.lost, off, off + len) IN
        IF r.err THEN c3 ELSE [c3 EXCEPT !.h.p.lost = r.segs]   \* a straddling removal is refused by the tracker: range kept
     ELSE c3
\* _handle_fd_pdu
HandleFd(c, cfg, pkt) ==
  LET off == pkt.off  len == Len(pkt.data)
      c0 == IF cfg.indD.segRecv THEN IndD(c, [k |-> "seg_recv", tid |-> c.h.p.tid, off |-> off, len |-> len]) ELSE c
      c1 == IF ModeD(c) = "ACK" THEN LostSegHandling(c0, cfg, off, len) ELSE c0
      reject(x) == IF x.h.p.fstat # "FILE_RETAINED"
                   THEN DeclareFaultD([x EXCEPT !.h.p.fstat = "DISCARDED_FILESTORE_REJECTION"], cfg, "FILESTORE_REJECTION")
                   ELSE x IN
  IF c1.exc # "none" THEN c1
  ELSE IF c1.wrej THEN reject(c1)                                   \* PermissionError from write_data
  ELSE IF ~FsHas(c1.h.fs, c1.h.p.fname) THEN reject(c1)             \* FileNotFoundError
  ELSE IF FsIsDir(c1.h.fs, c1.h.p.fname) THEN ExcD(c1, "IsADirectoryError")
  ELSE LET c2 == [c1 EXCEPT !.h.fs = FsPut(@, c1.h.p.fname, WriteAt(FsGet(c1.h.fs, c1.h.p.fname).d, off, pkt.data)),
                            !.h.p.fstat = "FILE_RETAINED"] IN
       IF c2.h.p.eofSize >= 0 /\ off + len > c2.h.p.eofSize THEN
          LET c3 == DeclareFaultD(c2, cfg, "FILE_SIZE_ERROR") IN
          IF c3.exc # "none" \/ cfg.fhD["FILE_SIZE_ERROR"] # "ignore" THEN c3
          ELSE [c3 EXCEPT !.h.p.progress = DMax(off + len, @)]
       ELSE [c2 EXCEPT !.h.p.progress = DMax(off + len, @)]

\* _start_check_limit_handling
StartCheckLimit(c) == [c EXCEPT !.h.step = "RECV_FILE_DATA_WITH_CHECK_LIMIT_HANDLING",
                                !.h.p.chkT = [armed |-> TRUE, start |-> c.now], !.h.p.chkCnt = 0]
\* _handle_no_error_eof -> [c, regular]
NoErrorEof(c, cfg) ==
  LET p == c.h.p
      r1 == IF p.progress > p.eofSize THEN
               LET cf == DeclareFaultD(c, cfg, "FILE_SIZE_ERROR") IN
               [c |-> cf, stop |-> cf.exc # "none" \/ cfg.fhD["FILE_SIZE_ERROR"] # "ignore"]
            ELSE IF p.progress < p.eofSize /\ ModeD(c) = "ACK" THEN
               [c |-> [c EXCEPT !.h.p.lost = LsAdd(@, p.progress, p.eofSize)], stop |-> FALSE]
            ELSE [c |-> c, stop |-> FALSE] IN
  IF r1.stop THEN [c |-> r1.c, regular |-> FALSE]
  ELSE IF ModeD(r1.c) = "UNACK" THEN
       LET v == VerifyD(r1.c, cfg) IN
       IF v.c.exc # "none" THEN [c |-> v.c, regular |-> FALSE]
       ELSE IF v.ok THEN [c |-> v.c, regular |-> TRUE]
       \* the fault was declared by the verification; what follows depends on the configured handler code only
       ELSE IF cfg.fhD["FILE_CHECKSUM_FAILURE"] # "ignore" THEN [c |-> v.c, regular |-> FALSE]
            ELSE [c |-> StartCheckLimit(v.c), regular |-> FALSE]
  ELSE [c |-> r1.c, regular |-> TRUE]
\* _handle_eof_pdu
HandleEof(c, cfg, pkt) ==
  LET c0 == [c EXCEPT !.h.p.crcSet = TRUE, !.h.p.crc = pkt.chk, !.h.p.eofSize = pkt.size]
      c1 == IF cfg.indD.eofRecv THEN IndD(c0, [k |-> "eof_recv", tid |-> c.h.p.tid]) ELSE c0 IN
  IF pkt.cond = "NO_ERROR" THEN
     LET r == NoErrorEof(c1, cfg) IN IF r.regular THEN CompleteTransition(r.c) ELSE r.c
  ELSE \* EOF (cancel): cancel response procedures, fault location = the remote entity
     CompleteTransition([c1 EXCEPT !.h.p.disp = "CANCELED", !.h.p.cond = pkt.cond,
                                   !.h.p.floc = [set |-> TRUE, v |-> IdBytes(cfg.sIdW, cfg.sId)],
                                   !.h.p.progress = pkt.size, !.h.p.deliv = "DATA_INCOMPLETE"])

\* ---- metadata ----
\* _init_vfs_handling: directory target -> append the source base name; truncate or create
Parent(p) == p   \* (unused placeholder)
InitVfs(c, cfg, base) ==
  LET f0 == c.h.p.fname
      f == IF FsIsDir(c.h.fs, f0) THEN f0 \o "/" \o base ELSE f0
      c1 == [c EXCEPT !.h.p.fname = f] IN
  \* a rejecting filestore (PermissionError from truncate_file / create_file): nothing is created or truncated
  IF c1.wrej THEN DeclareFaultD([c1 EXCEPT !.h.p.fstat = "DISCARDED_FILESTORE_REJECTION"], cfg, "FILESTORE_REJECTION")
  ELSE IF FsIsDir(c1.h.fs, f) THEN [c1 EXCEPT !.h.p.fstat = "FILE_RETAINED"] \* truncate: open(dir, "w") -> IsADirectoryError is not modelled (drivers never do this)
  ELSE [c1 EXCEPT !.h.fs = FsPut(@, f, <<>>), !.h.p.fstat = "FILE_RETAINED"]
\* _handle_metadata_packet
HandleMetadata(c, cfg, pkt) ==
  LET mdOnly == pkt.dstName = "none" \/ pkt.srcName = "none"
      c1 == [c EXCEPT !.h.p.chkType = pkt.chkType, !.h.p.closure = pkt.closure, !.h.p.mdMissing = FALSE,
                      !.h.p.mdOnly = mdOnly, !.h.p.deliv = IF mdOnly THEN "DATA_COMPLETE" ELSE @,
                      !.h.p.fname = IF mdOnly THEN @ ELSE pkt.dstName, !.h.p.fileSize = pkt.size]
      c2 == IF ~mdOnly THEN InitVfs(StepD(c1, "RECEIVING_FILE_DATA"), cfg, pkt.srcBase) ELSE StepD(c1, "TRANSFER_COMPLETION")
      msgs == [i \in 1..Len(SelectSeq(pkt.opts, LAMBDA o : o.t = 2)) |-> SelectSeq(pkt.opts, LAMBDA o : o.t = 2)[i].v]
  IN IF c2.h.state = "IDLE" THEN c2     \* abandoned by the filestore-rejection fault: nothing left to indicate
     ELSE
     IndD(c2, [k |-> "metadata_recv", tid |-> c2.h.p.tid, src |-> pkt.h.sv,
               size |-> IF pkt.srcName = "none" THEN -1 ELSE pkt.size, srcName |-> pkt.srcName, dstName |-> pkt.dstName,
               msgs |-> msgs])
\* _handle_fd_without_previous_metadata(True, fd)
FdNoMd(c, cfg, pkt) ==
  IF c.h.p.eofSize >= 0 THEN c   \* EOF already received: [0, EOF size) is tracked as lost already and stays so
  ELSE
  LET len == Len(pkt.data)  prog == pkt.off + len
      c1 == [c EXCEPT !.h.p.progress = prog]
      c2 == IF len > 0 THEN [c1 EXCEPT !.h.p.lost = LsAdd(@, 0, prog), !.h.p.lastStart = prog, !.h.p.lastEnd = prog] ELSE c1
      reqs == << <<0, 0>> >> \o (IF len > 0 THEN << <<0, prog>> >> ELSE <<>>)
  IN IF cfg.immNak THEN EmitD(c2, MkNak(c2, prog, reqs)) ELSE c2
\* _handle_eof_without_previous_metadata
EofNoMd(c, cfg, pkt) ==
  LET c1 == [c EXCEPT !.h.p.progress = pkt.size, !.h.p.eofSize = pkt.size, !.h.p.crcSet = TRUE, !.h.p.crc = pkt.chk,
                      !.h.p.mdMissing = TRUE]
      c2a == IF pkt.size > 0 THEN [c1 EXCEPT !.h.p.lost = << <<0, pkt.size>> >>] ELSE c1
      \* EOF (cancel): cancel response procedures, fault location = the remote entity
      c2 == IF pkt.cond # "NO_ERROR"
            THEN [c2a EXCEPT !.h.p.disp = "CANCELED", !.h.p.cond = pkt.cond, !.h.p.floc = [set |-> TRUE, v |-> IdBytes(cfg.sIdW, cfg.sId)],
                             !.h.p.deliv = "DATA_INCOMPLETE"]
            ELSE c2a
      c3 == IF cfg.indD.eofRecv THEN IndD(c2, [k |-> "eof_recv", tid |-> c.h.p.tid]) ELSE c2
  IN StepD(EmitD(c3, MkAckEof(c3)), "SENDING_EOF_ACK_PDU")
\* _handle_waiting_for_missing_metadata
WaitingForMetadata(c, cfg, pkt) ==
  IF pkt.t = "none" THEN c
  ELSE IF pkt.t = "FD" THEN FdNoMd(c, cfg, pkt)
  ELSE IF pkt.t = "MD" THEN
       LET c1 == HandleMetadata(c, cfg, pkt) IN
       IF c1.h.p.deferred THEN
          LET c2 == ResetNak(c1) IN
          IF c2.exc = "none" /\ c2.h.step = "RECEIVING_FILE_DATA" THEN StepD(c2, "WAITING_FOR_MISSING_DATA") ELSE c2
       ELSE c1
  ELSE IF pkt.t = "EOF" THEN LET c1 == EofNoMd(c, cfg, pkt) IN IF c1.h.p.deferred THEN ResetNak(c1) ELSE c1
  ELSE c

\* _check_limit_handling
CheckLimit(c, cfg) ==
  IF ~c.h.p.chkT.armed THEN ExcD(c, "AssertionError")
  ELSE IF ExpiredD(c.h.p.chkT, c.now, cfg.chkInt) THEN
     LET v == VerifyD(c, cfg) IN
     IF v.c.exc # "none" THEN v.c
     ELSE IF v.ok THEN CompleteTransition(v.c)
     ELSE IF v.c.h.state = "IDLE" THEN v.c                  \* abandoned by the fault handler
     ELSE IF v.c.h.p.chkCnt + 1 >= cfg.chkLim THEN DeclareFaultD(v.c, cfg, "CHECK_LIMIT_REACHED")
     ELSE [v.c EXCEPT !.h.p.chkCnt = @ + 1, !.h.p.chkT.start = c.now]
  ELSE c

\* _handle_transfer_completion / _notice_of_completion
TransferCompletion(c, cfg) ==
  LET p == c.h.p
      c1 == IF p.disp = "CANCELED" /\ cfg.disp /\ p.deliv = "DATA_INCOMPLETE"
            THEN [c EXCEPT !.h.fs = IF FsIsFile(@, p.fname) THEN FsDel(@, p.fname) ELSE @,
                           !.h.p.fstat = "DISCARDED_DELIBERATELY"] ELSE c
      c2 == IF cfg.indD.finished
            THEN IndD(c1, [k |-> "finished", tid |-> p.tid, cond |-> c1.h.p.cond, deliv |-> c1.h.p.deliv,
                           fstat |-> c1.h.p.fstat]) ELSE c1
  IN IF (ModeD(c) = "UNACK" /\ p.closure) \/ ModeD(c) = "ACK" THEN StepD(c2, "SENDING_FINISHED_PDU") ELSE ResetD(c2)
\* _prepare_finished_pdu
PrepareFinished(c) == EmitD(c, MkFin(c))
\* _handle_finished_pdu_sent
FinishedSent(c) ==
  IF c.h.state = "BUSY" /\ ModeD(c) = "ACK"
  THEN [c EXCEPT !.h.p.ackT = [armed |-> TRUE, start |-> c.now], !.h.p.ackCnt = 0, !.h.step = "WAITING_FOR_FINISHED_ACK"]
  ELSE ResetD(c)

RECURSIVE NonIdleD(_, _, _)
\* _handle_positive_ack_procedures
PositiveAckD(c, cfg) ==
  IF ~c.h.p.ackT.armed THEN ExcD(c, "AssertionError")
  ELSE IF ExpiredD(c.h.p.ackT, c.now, AckIntD(cfg)) THEN
     IF c.h.p.ackCnt + 1 >= cfg.ackLim THEN
        IF c.h.p.disp = "CANCELED" THEN
           \* CFDP 4.11.2.3.3: fault while the Finished (cancel) is being transferred -> abandon
           ResetD([c EXCEPT !.flt = Append(@, [k |-> "abandon", tid |-> c.h.p.tid, cond |-> "POSITIVE_ACK_LIMIT_REACHED",
                                               prog |-> c.h.p.progress])])
        ELSE LET cf == DeclareFaultD(c, cfg, "POSITIVE_ACK_LIMIT_REACHED") IN
             IF cf.exc # "none" THEN cf
             ELSE IF cf.h.p.disp = "CANCELED" THEN
                  \* "return self.state_machine()": the completion is re-run in the same call
                  (IF cf.depth > 3 THEN ExcD(cf, "RecursionError")
                   ELSE NonIdleD([cf EXCEPT !.depth = @ + 1], cfg, [t |-> "none"]))
             ELSE IF cf.h.state = "IDLE" THEN cf                            \* abandoned by the fault handler
             ELSE PrepareFinished([cf EXCEPT !.h.p.ackT.start = c.now, !.h.p.ackCnt = @ + 1])
     ELSE PrepareFinished([c EXCEPT !.h.p.ackT.start = c.now, !.h.p.ackCnt = @ + 1])
  ELSE c
\* _handle_waiting_for_finished_ack
WaitingForFinishedAck(c, cfg, pkt) == IF pkt.t # "ACK" THEN PositiveAckD(c, cfg) ELSE ResetD(c)

\* __non_idle_fsm
NonIdleD(c0, cfg, pkt) ==
  LET A(c) == AdvanceD(c, cfg)
      \* CFDP 4.7.2: every EOF PDU received is acknowledged, also one re-sent after the EOF was accepted (its ACK was lost)
      A2(c) == IF pkt.t = "EOF" /\ ModeD(c) = "ACK"
                  /\ c.h.step \in {"WAITING_FOR_MISSING_DATA", "WAITING_FOR_FINISHED_ACK"}
               THEN [EmitD(c, MkAckEof(c)) EXCEPT !.stop = TRUE]     \* "return": the step's procedures continue with the next call
               ELSE c
      B(c) == IF c.h.step \in {"RECEIVING_FILE_DATA", "RECV_FILE_DATA_WITH_CHECK_LIMIT_HANDLING"} /\ pkt.t # "none" THEN
                 (IF pkt.t = "FD" THEN HandleFd(c, cfg, pkt) ELSE IF pkt.t = "EOF" THEN HandleEof(c, cfg, pkt) ELSE c)
              ELSE c
      C1(c) == IF c.h.step = "WAITING_FOR_METADATA"
               THEN ThenD(WaitingForMetadata(c, cfg, pkt), LAMBDA x : Deferred(x, cfg)) ELSE c
      D(c) == IF c.h.step = "RECV_FILE_DATA_WITH_CHECK_LIMIT_HANDLING" THEN CheckLimit(c, cfg) ELSE c
      E(c) == IF c.h.step = "WAITING_FOR_MISSING_DATA" THEN
                 LET c1 == IF pkt.t = "FD"
                           THEN (LET cf == HandleFd(c, cfg, pkt) IN IF cf.exc = "none" /\ cf.h.p.deferred THEN ResetNak(cf) ELSE cf)
                           ELSE c
                 IN ThenD(c1, LAMBDA x : Deferred(x, cfg))
              ELSE c
      F(c) == IF c.h.step = "TRANSFER_COMPLETION" THEN TransferCompletion(c, cfg) ELSE c
      G(c) == IF c.h.step = "SENDING_FINISHED_PDU" THEN ThenD(PrepareFinished(c), FinishedSent) ELSE c
      H(c) == IF c.h.step = "WAITING_FOR_FINISHED_ACK" THEN WaitingForFinishedAck(c, cfg, pkt) ELSE c
  IN ThenD(ThenD(ThenD(ThenD(ThenD(ThenD(ThenD(ThenD(A(c0), A2), B), C1), D), E), F), G), H)

\* get_packet_destination (handler/common.py)
RouteToSource(pkt) == pkt.t \in {"FIN", "NAK", "KA"} \/ (pkt.t = "ACK" /\ pkt.acked = "EOF")
\* _check_inserted_packet
AdmitD(h, cfg, pkt) ==
  IF pkt.h.dir # "TR" THEN <<"InvalidPduDirection", "none">>
  ELSE IF pkt.h.dv # cfg.dId THEN <<"InvalidDestinationId", "none">>
  ELSE IF pkt.h.sv # cfg.sId THEN <<"NoRemoteEntityCfgFound", "none">>
  ELSE IF RouteToSource(pkt) THEN <<"InvalidPduForDestHandler", "none">>
  ELSE IF h.state = "IDLE" /\ pkt.t # "MD" /\ pkt.h.mode = "UNACK" THEN <<"PduIgnoredForDest", "FIRST_PACKET_NOT_METADATA_PDU">>
  ELSE IF h.state = "IDLE" /\ pkt.t # "MD" /\ pkt.h.mode = "ACK" /\ pkt.t \notin {"FD", "EOF"}
       THEN <<"PduIgnoredForDest", "FIRST_PACKET_IN_ACKED_MODE_NOT_METADATA_NOT_EOF_NOT_FD">>
  ELSE IF pkt.t \in {"ACK", "PROMPT"} /\ h.state = "BUSY" /\ h.p.hdr.mode = "UNACK"
       THEN <<"PduIgnoredForDest", "INVALID_MODE_FOR_ACKED_MODE_PACKET">>
  ELSE <<"none", "none">>
\* _common_first_packet_handler
FirstPacket(c, pkt) ==
  [c EXCEPT !.h.p = [FreshD EXCEPT !.tid = [set |-> TRUE, src |-> pkt.h.sv, seq |-> pkt.h.qv],
                                   !.hdr = [pkt.h EXCEPT !.dir = "TS"], !.rcSet = TRUE],
            !.h.state = "BUSY"]
\* __idle_fsm
IdleD(c, cfg, pkt) ==
  IF pkt.t = "none" THEN c
  ELSE IF pkt.t = "FD" THEN FdNoMd([FirstPacket(c, pkt) EXCEPT !.h.step = "WAITING_FOR_METADATA", !.h.p.mdMissing = TRUE], cfg, pkt)
  ELSE IF pkt.t = "EOF" THEN EofNoMd([FirstPacket(c, pkt) EXCEPT !.h.step = "WAITING_FOR_METADATA", !.h.p.mdMissing = TRUE], cfg, pkt)
  ELSE IF pkt.t = "MD" THEN HandleMetadata(FirstPacket(c, pkt), cfg, pkt)
  ELSE ExcD(c, "ValueError")

\* ---- the public calls ----
DstFsm(h, cfg, pkt, now, wrej) ==
  LET a == IF pkt.t = "none" THEN <<"none", "none">> ELSE AdmitD(h, cfg, pkt)
      c0 == CtxD(h, now, wrej) IN
  IF a[1] # "none" THEN ExcRD(c0, a[1], a[2])
  ELSE LET c1 == IF h.state = "IDLE" THEN IdleD(c0, cfg, pkt) ELSE c0 IN
       IF c1.exc # "none" THEN c1
       ELSE IF h.state = "IDLE" /\ c1.h.q # <<>> THEN c1
       ELSE IF c1.h.state = "BUSY" THEN NonIdleD(c1, cfg, pkt) ELSE c1
\* cancel_request(id)
DstCancel(h, cfg, right, now) ==
  LET c == CtxD(h, now, FALSE) IN
  IF h.state = "IDLE" THEN [c EXCEPT !.ret = "false"]
  ELSE IF h.q # <<>> THEN ExcD(c, "UnretrievedPdusToBeSent")
  ELSE IF h.p.tid.set /\ right THEN
       [c EXCEPT !.h.p.disp = "CANCELED", !.h.p.cond = "CANCEL_REQUEST_RECEIVED",
                 !.h.p.floc = [set |-> TRUE, v |-> IdBytes(cfg.dIdW, cfg.dId)], !.h.step = "TRANSFER_COMPLETION", !.ret = "true"]
  ELSE [c EXCEPT !.ret = "false"]
DstReset(h, now) == ResetD(CtxD(h, now, FALSE))
DstDrain(h, n) ==
  LET k == IF n < 0 \/ n > Len(h.q) THEN Len(h.q) ELSE n IN
  [h |-> [h EXCEPT !.q = SubSeq(@, k + 1, Len(@))], out |-> SubSeq(h.q, 1, k)]
PubD(h) == [state |-> h.state, step |-> h.step, progress |-> h.p.progress, fileSize |-> h.p.fileSize, nready |-> Len(h.q),
            tidSet |-> h.p.tid.set, tseq |-> IF h.p.tid.set THEN h.p.tid.seq ELSE -1, ackCnt |-> h.p.ackCnt,
            nakCnt |-> h.p.nakCnt, chkCnt |-> h.p.chkCnt, deferred |-> h.p.deferred]
====

---- MODULE Filestore ----
(***************************************************************************)
(* C17, model side: the reference file-system model as a state machine     *)
(* over a small universe (file names in the root and in one directory      *)
(* level, two directory names, offsets 0..MaxOff, payloads over {1, 2}).   *)
(* TLC explores the complete graph up to Depth operations from the empty   *)
(* tree and checks the semantic invariants of the statement; with Emit     *)
(* every transition is printed so that the harness performs it on a real   *)
(* NativeFilestore ("one implementation step per transition").             *)
(***************************************************************************)
EXTENDS FilestoreOps, TLC, Json, SequencesExt
CONSTANTS Depth, MaxOff, Emit
VARIABLES tree, n, last
vars == <<tree, n, last>>
Files == {"a", "b", "d1/a", "d2/b"}
Dirs == {"d1", "d2", "d1/d3"}
Paths == Files \cup Dirs
Payloads == {<<>>, <<1>>, <<2, 1>>}
Ops == { [op |-> k, p |-> p] : k \in {"create_file", "delete_file", "create_directory", "truncate_file", "file_size", "file_exists", "is_directory"}, p \in Paths }
       \cup { [op |-> k, p |-> p, q |-> q] : k \in {"rename_file", "replace_file"}, p \in Paths, q \in Paths }
       \cup { [op |-> "remove_directory", p |-> p, rec |-> r] : p \in Paths, r \in BOOLEAN }
       \cup { [op |-> "write_data", p |-> p, off |-> o, data |-> d] : p \in {"a", "d1/a", "d1"}, o \in 0..MaxOff, d \in Payloads }
       \cup { [op |-> "read_data", p |-> p, off |-> o, len |-> l] : p \in {"a", "d1/a"}, o \in 0..MaxOff, l \in {0, 1, 4} }
\* the exploration starts from the empty sandbox and from a populated one (so that reads / writes / removals of existing
\* content are within the depth bound of the quick tier)
Seeded == { [p |-> "a", dir |-> FALSE, d |-> <<2, 1>>], [p |-> "d1", dir |-> TRUE, d |-> <<>>], [p |-> "d1/a", dir |-> FALSE, d |-> <<1>>],
            [p |-> "d1/d3", dir |-> TRUE, d |-> <<>>] }
Init == tree \in {{}, Seeded} /\ n = 0 /\ last = [op |-> [op |-> "none"], res |-> R({}, "none"), pre |-> {}]
Do(o) == /\ n < Depth
         /\ LET r == Apply(tree, o) IN tree' = r.tree /\ last' = [op |-> o, res |-> r, pre |-> tree]
         /\ n' = n + 1
Next == \E o \in Ops : Do(o)
Spec == Init /\ [][Next]_vars
\* ---- the semantics the statement demands, as properties of every transition ----
Success == {"CREATE_SUCCESS", "DELETE_SUCCESS", "RENAME_SUCCESS", "REPLACE_SUCCESS", "CREATE_DIR_SUCCESS", "REMOVE_DIR_SUCCESS"}
Refusals == {"CREATE_NOT_ALLOWED", "DELETE_FILE_DOES_NOT_EXIST", "DELETE_NOT_ALLOWED", "RENAME_NOT_PERFORMED", "RENAME_OLD_FILE_DOES_NOT_EXIST",
             "RENAME_NEW_FILE_DOES_EXIST", "REPLACE_NOT_ALLOWED", "REPLACE_FILE_NAME_ONE_TO_BE_REPLACED_DOES_NOT_EXIST",
             "REPLACE_FILE_NAME_TWO_REPLACE_SOURCE_NOT_EXIST", "CREATE_DIR_CAN_NOT_BE_CREATED", "REMOVE_DIR_DOES_NOT_EXIST", "REMOVE_DIR_NOT_ALLOWED"}
\* a refused or failing operation leaves the tree unchanged
RefusalKeepsTree == (last.res.ret \in Refusals \/ last.res.exc # "none") => tree = last.pre
\* a success code only when the effect happened
SuccessMeansEffect ==
  /\ (last.res.ret = "CREATE_SUCCESS" => IsFile(tree, last.op.p) /\ ~Exists(last.pre, last.op.p) /\ Get(tree, last.op.p).d = <<>>)
  /\ (last.res.ret = "DELETE_SUCCESS" => ~Exists(tree, last.op.p) /\ IsFile(last.pre, last.op.p))
  /\ (last.res.ret = "RENAME_SUCCESS" => ~Exists(tree, last.op.p) /\ IsFile(tree, last.op.q) /\ Get(tree, last.op.q).d = Get(last.pre, last.op.p).d)
  /\ (last.res.ret = "REPLACE_SUCCESS" => IsFile(tree, last.op.p) /\ Get(tree, last.op.p).d = Get(last.pre, last.op.q).d
                                          /\ (last.op.p # last.op.q => ~Exists(tree, last.op.q)))
  /\ (last.res.ret = "CREATE_DIR_SUCCESS" => IsDir(tree, last.op.p) /\ ~Exists(last.pre, last.op.p))
  /\ (last.res.ret = "REMOVE_DIR_SUCCESS" => ~Exists(tree, last.op.p) /\ IsDir(last.pre, last.op.p) /\ \A f \in tree : ~Below(f.p, last.op.p))
\* data written at an offset is read back identically and all other bytes are untouched (gaps read as zero)
WriteReadBack ==
  (last.op.op = "write_data" /\ last.res.exc = "none" /\ last.op.data # <<>>) =>
     LET old == Get(last.pre, last.op.p).d  new == Get(tree, last.op.p).d  o == last.op.off  m == Len(last.op.data) IN
     /\ SubSeq(new, o + 1, o + m) = last.op.data
     /\ Len(new) = FMax(Len(old), o + m)
     /\ \A i \in 1..Len(new) : (i <= o \/ i > o + m) => new[i] = (IF i <= Len(old) THEN old[i] ELSE 0)
\* the tree stays a tree: every entry has an existing parent directory, paths are unique
WellFormed == /\ \A f \in tree : ParentOk(tree, f.p)
              /\ \A f, g \in tree : f.p = g.p => f = g
EmitTrans == Emit => PrintT("FST" \o ToJson([pre |-> SetToSeq(tree), op |-> last'.op]))   \* ACTION_CONSTRAINT: one line per transition
====

---- MODULE CfdpProps ----
(***************************************************************************)
(* The listed properties as monitors over OBSERVED executions: a trace T   *)
(* recorded by harness/world.py (public API calls of the real handlers     *)
(* with their arguments, clock, return values, exceptions, emitted PDUs,   *)
(* indications, fault callbacks, public state and sandbox snapshots).      *)
(* Monitors read observables only; they never consult the transducers      *)
(* SrcCore/DstCore, so a wrong transducer cannot hide a wrong handler.     *)
(* Each monitor demands no more than the statement of its property; the    *)
(* readings of ambiguous statements are recorded in DESIGN.md section 6.   *)
(*                                                                         *)
(* T.props lists the properties whose premises the driver established for  *)
(* this execution (e.g. "C02": fault-free link).  Violations(T) is a set   *)
(* of records [prop, clause, at, kf, d1, d2]: at = index of the event,     *)
(* kf = signatures of known findings observed in the trace, d1/d2 detail.  *)
(***************************************************************************)
EXTENDS Naturals, Integers, Sequences, FiniteSets, SequencesExt, Checksum, PduLayout

PMin(a, b) == IF a < b THEN a ELSE b
PMax(a, b) == IF a > b THEN a ELSE b
Has(T, p) == \E i \in DOMAIN T.props : T.props[i] = p
V(p, clause, at, kf, d1, d2) == [prop |-> p, clause |-> clause, at |-> at, kf |-> kf, d1 |-> d1, d2 |-> d2]
Calls(T) == { i \in DOMAIN T.ev : T.ev[i].side # "E" }
OfSide(T, s) == { i \in DOMAIN T.ev : T.ev[i].side = s }
LastIdx(S) == CHOOSE i \in S : \A j \in S : j <= i
\* all indications / fault callbacks of one side, in order
IndsOf(T, s) == FoldLeft(LAMBDA acc, e : IF e.side = s THEN acc \o e.ind ELSE acc, <<>>, T.ev)
FinOf(q) == SelectSeq(q, LAMBDA i : i.k = "finished")
Succ(f) == f.cond = "NO_ERROR" /\ f.deliv = "DATA_COMPLETE" /\ f.fstat = "FILE_RETAINED"
GoodFin(f) == f.cond = "NO_ERROR" /\ f.deliv = "DATA_COMPLETE"
EffModeT(T) == IF T.cfg.putMode = "none" THEN T.cfg.mode ELSE T.cfg.putMode
\* every transaction of the execution runs in acknowledged mode (cfg.more: the put requests after the first one)
AllAckT(T) == EffModeT(T) = "ACK" /\ \A i \in DOMAIN T.cfg.more :
                 (IF T.cfg.more[i].putMode = "none" THEN T.cfg.mode ELSE T.cfg.more[i].putMode) = "ACK"
NTxT(T) == 1 + Len(T.cfg.more)
EffClosureT(T) == IF T.cfg.putClosure = "none" THEN T.cfg.closure ELSE T.cfg.putClosure = "true"
MinLimit(T) == PMin(T.cfg.ackLim, PMin(T.cfg.nakLim, T.cfg.chkLim))

\* ---- the destination sandbox ----
DstPathT(T) == IF T.cfg.dstShape \in {"dir", "direxisting"} THEN "d/" \o T.cfg.dstName \o "/" \o T.cfg.srcName
               ELSE "d/" \o T.cfg.dstName
FileSame(fs, path, data) == \E j \in DOMAIN fs : fs[j].p = path /\ ~fs[j].dir /\ fs[j].d = data
FileCollides(fs, path, data, chk) ==
  \E j \in DOMAIN fs : /\ fs[j].p = path /\ ~fs[j].dir /\ fs[j].d # data
                       /\ FileChecksum(chk, fs[j].d, Len(fs[j].d)) = FileChecksum(chk, data, Len(data))

\* ---- signatures of known findings observed in a trace (known_findings.json) ----
\* F01: an EOF PDU delivered to a receiver that already accepted the EOF of its running acknowledged transaction is
\*      not answered with an ACK (EOF)
EofSeenBefore(T, i) == \E j \in 1..(i - 1) : /\ T.ev[j].side = "D" /\ T.ev[j].call = "fsm" /\ T.ev[j].arg.t = "EOF"
                                              /\ T.ev[j].exc = "none" /\ T.ev[j].post.tseq = T.ev[i].pre.tseq
SigF01(T) == \E i \in OfSide(T, "D") : LET e == T.ev[i] IN
               /\ e.call = "fsm" /\ e.arg.t = "EOF" /\ e.arg.h.mode = "ACK" /\ e.pre.state = "BUSY" /\ EofSeenBefore(T, i)
               /\ ~\E k \in DOMAIN e.out : e.out[k].t = "ACK" /\ e.out[k].acked = "EOF"
Kf(T) == IF SigF01(T) THEN "F01" ELSE "none"

\* ===== C01: a reported success implies a byte-identical file (or a genuine checksum collision) =====
ReportsSuccess(e) == \/ \E j \in DOMAIN e.ind : e.ind[j].k = "finished" /\ Succ(e.ind[j])
                     \/ (e.side = "D" /\ \E j \in DOMAIN e.out : e.out[j].t = "FIN" /\ Succ(e.out[j]))
C01(T) ==
  IF ~Has(T, "C01") \/ T.cfg.mdOnly THEN {} ELSE
  { V("C01", "success-reported-with-different-file", i, Kf(T), T.ev[i].side, "") :
      i \in { i \in Calls(T) : /\ ReportsSuccess(T.ev[i])
                               /\ ~FileSame(T.ev[i].fs, DstPathT(T), T.cfg.file)
                               /\ ~(/\ FileCollides(T.ev[i].fs, DstPathT(T), T.cfg.file, T.cfg.chk)
                                     \* the collision clause is for what only the checksum can detect (corrupted payload,
                                     \* rejected writes, loss in unacknowledged mode), not for loss / duplication /
                                     \* reordering / delay in acknowledged mode
                                     /\ (T.ncorrupt > 0 \/ ~AllAckT(T))) } }

\* ===== the outcome C02 and C03 demand once the link is quiet =====
EndClauses(T) ==
  LET fs == FinOf(IndsOf(T, "S"))
      fd == FinOf(IndsOf(T, "D"))
      lastFs == T.ev[LastIdx(Calls(T))].fs IN
  (IF ~T.done THEN {"handlers-not-idle-at-the-end"} ELSE {})
  \cup (IF T.cfg.indS.finished /\ ~(Len(fs) = NTxT(T) /\ \A k \in DOMAIN fs : GoodFin(fs[k])) THEN {"sender-not-exactly-one-successful-finished-indication"} ELSE {})
  \cup (IF T.cfg.indD.finished /\ ~(Len(fd) = NTxT(T) /\ \A k \in DOMAIN fd : GoodFin(fd[k])) THEN {"receiver-not-exactly-one-successful-finished-indication"} ELSE {})
  \cup (IF ~T.cfg.mdOnly /\ ~FileSame(lastFs, DstPathT(T), T.cfg.file) THEN {"destination-file-differs"} ELSE {})
\* ===== C02: every transfer over a fault-free link completes successfully =====
C02(T) ==
  IF ~Has(T, "C02") \/ T.nfaults # 0 THEN {} ELSE
  { V("C02", c, Len(T.ev), Kf(T), "", "") : c \in EndClauses(T) }
  \cup { V("C02", "api-call-raised", i, Kf(T), T.ev[i].exc, T.ev[i].excw) : i \in { i \in Calls(T) : T.ev[i].exc # "none" } }
  \cup { V("C02", "fault-callback-fired", i, Kf(T), T.ev[i].flt[1].cond, T.ev[i].flt[1].k) : i \in { i \in Calls(T) : T.ev[i].flt # <<>> } }
\* ===== C03: acknowledged mode recovers from at most K faults when every limit exceeds K =====
C03(T) ==
  IF ~Has(T, "C03") \/ ~AllAckT(T) \/ T.nfaults >= MinLimit(T) THEN {} ELSE
  { V("C03", c, Len(T.ev), Kf(T), "", "") : c \in EndClauses(T) }

\* ===== C10: only protocol exceptions, only when the caller is at fault =====
ProtocolExc == {"NoRemoteEntityCfgFound", "FsmNotCalledAfterPacketInsertion", "SourceFileDoesNotExist", "ChecksumNotImplemented",
                "UnretrievedPdusToBeSent", "InvalidNakPdu", "InvalidPduDirection", "InvalidSourceId", "InvalidDestinationId",
                "InvalidTransactionSeqNum", "BusyError", "InvalidPduForSourceHandler", "PduIgnoredForSource",
                "InvalidPduForDestHandler", "PduIgnoredForDest"}
AdmissionExc == {"NoRemoteEntityCfgFound", "InvalidPduDirection", "InvalidSourceId", "InvalidDestinationId",
                 "InvalidTransactionSeqNum", "InvalidPduForSourceHandler", "PduIgnoredForSource", "InvalidPduForDestHandler",
                 "PduIgnoredForDest"}
\* the destination sandbox before event i: the snapshot of the previous destination-side event (or the initial one)
FsBefore(T, i) == LET prev == { j \in 1..(i - 1) : T.ev[j].side = "D" } IN
                  IF prev = {} THEN T.fs0 ELSE T.ev[LastIdx(prev)].fs
C10(T) ==
  IF ~Has(T, "C10") THEN {} ELSE
  { V("C10", "internal-error-leaked", i, Kf(T), T.ev[i].exc, T.ev[i].excw) :
      i \in { i \in Calls(T) : T.ev[i].exc \notin (ProtocolExc \cup {"none"}) } }
  \cup { V("C10", "unretrieved-pdus-error-with-empty-queue", i, Kf(T), T.ev[i].exc, T.ev[i].excw) :
      i \in { i \in Calls(T) : T.ev[i].exc = "UnretrievedPdusToBeSent" /\ T.ev[i].pre.nready = 0 } }
  \cup { V("C10", "rejected-pdu-changed-state", i, Kf(T), T.ev[i].exc, T.ev[i].excw) :
      i \in { i \in Calls(T) : LET e == T.ev[i] IN
                /\ e.call = "fsm" /\ e.arg.t # "none" /\ e.exc \in AdmissionExc
                /\ \/ [e.post EXCEPT !.nready = e.pre.nready] # e.pre
                   \/ e.pre.nready # e.post.nready + Len(e.out)
                   \/ (e.side = "D" /\ ToSet(e.fs) # ToSet(FsBefore(T, i))) } }

Violations(T) == C01(T) \cup C02(T) \cup C03(T) \cup C10(T)
====

---- MODULE CfdpProps ----
EXTENDS Naturals, Integers, Sequences, FiniteSets, SequencesExt, Checksum, PduLayout
Violations(T) == {}
====

---- MODULE CfdpProps ----
(***************************************************************************)
(* The listed properties as monitors over OBSERVED executions: a trace T   *)
(* recorded by harness/world.py (public API calls of the real handlers     *)
(* with their arguments, clock, return values, exceptions, emitted PDUs,   *)
(* indications, fault callbacks, public state and sandbox snapshots).      *)
(* Monitors read observables only; they never consult the transducers      *)
(* SrcCore/DstCore, so a wrong transducer cannot hide a wrong handler.     *)
(* Each monitor demands no more than the statement of its property; the    *)
(* readings of ambiguous statements are recorded in DESIGN.md section 6.   *)
(*                                                                         *)
(* T.props lists the properties whose premises the driver established for  *)
(* this execution (e.g. "C02": fault-free link).  Violations(T) is a set   *)
(* of records [prop, clause, at, kf, d1, d2]: at = index of the event,     *)
(* kf = signatures of known findings observed in the trace, d1/d2 detail.  *)
(***************************************************************************)
EXTENDS Naturals, Integers, Sequences, FiniteSets, SequencesExt, Checksum, PduLayout

PMin(a, b) == IF a < b THEN a ELSE b
PMax(a, b) == IF a > b THEN a ELSE b
Has(T, p) == \E i \in DOMAIN T.props : T.props[i] = p
V(p, clause, at, kf, d1, d2) == [prop |-> p, clause |-> clause, at |-> at, kf |-> kf, d1 |-> d1, d2 |-> d2]
Calls(T) == { i \in DOMAIN T.ev : T.ev[i].side # "E" }
OfSide(T, s) == { i \in DOMAIN T.ev : T.ev[i].side = s }
LastIdx(S) == CHOOSE i \in S : \A j \in S : j <= i
\* all indications / fault callbacks of one side, in order
IndsOf(T, s) == FoldLeft(LAMBDA acc, e : IF e.side = s THEN acc \o e.ind ELSE acc, <<>>, T.ev)
FinOf(q) == SelectSeq(q, LAMBDA i : i.k = "finished")
Succ(f) == f.cond = "NO_ERROR" /\ f.deliv = "DATA_COMPLETE" /\ f.fstat = "FILE_RETAINED"
GoodFin(f) == f.cond = "NO_ERROR" /\ f.deliv = "DATA_COMPLETE"
EffModeT(T) == IF T.cfg.putMode = "none" THEN T.cfg.mode ELSE T.cfg.putMode
\* every transaction of the execution runs in acknowledged mode (cfg.more: the put requests after the first one)
AllAckT(T) == EffModeT(T) = "ACK" /\ \A i \in DOMAIN T.cfg.more :
                 (IF T.cfg.more[i].putMode = "none" THEN T.cfg.mode ELSE T.cfg.more[i].putMode) = "ACK"
NTxT(T) == 1 + Len(T.cfg.more)
EffClosureT(T) == IF T.cfg.putClosure = "none" THEN T.cfg.closure ELSE T.cfg.putClosure = "true"
MinLimit(T) == PMin(T.cfg.ackLim, PMin(T.cfg.nakLim, T.cfg.chkLim))

\* ---- the destination sandbox ----
DstPathT(T) == IF T.cfg.dstShape \in {"dir", "direxisting"} THEN "d/" \o T.cfg.dstName \o "/" \o T.cfg.srcName
               ELSE "d/" \o T.cfg.dstName
FileSame(fs, path, data) == \E j \in DOMAIN fs : fs[j].p = path /\ ~fs[j].dir /\ fs[j].d = data
FileCollides(fs, path, data, chk) ==
  \E j \in DOMAIN fs : /\ fs[j].p = path /\ ~fs[j].dir /\ fs[j].d # data
                       /\ FileChecksum(chk, fs[j].d, Len(fs[j].d)) = FileChecksum(chk, data, Len(data))

\* ---- signatures of known findings observed in a trace (known_findings.json) ----
\* F01: an EOF PDU delivered to a receiver that already accepted the EOF of its running acknowledged transaction is
\*      not answered with an ACK (EOF)
EofSeenBefore(T, i) == \E j \in 1..(i - 1) : /\ T.ev[j].side = "D" /\ T.ev[j].call = "fsm" /\ T.ev[j].arg.t = "EOF"
                                              /\ T.ev[j].exc = "none" /\ T.ev[j].post.tseq = T.ev[i].pre.tseq
SigF01(T) == \E i \in OfSide(T, "D") : LET e == T.ev[i] IN
               /\ e.call = "fsm" /\ e.arg.t = "EOF" /\ e.arg.h.mode = "ACK" /\ e.pre.state = "BUSY" /\ EofSeenBefore(T, i)
               /\ ~\E k \in DOMAIN e.out : e.out[k].t = "ACK" /\ e.out[k].acked = "EOF"
Kf(T) == IF SigF01(T) THEN "F01" ELSE "none"

\* ===== C01: a reported success implies a byte-identical file (or a genuine checksum collision) =====
ReportsSuccess(e) == \/ \E j \in DOMAIN e.ind : e.ind[j].k = "finished" /\ Succ(e.ind[j])
                     \/ (e.side = "D" /\ \E j \in DOMAIN e.out : e.out[j].t = "FIN" /\ Succ(e.out[j]))
C01(T) ==
  IF ~Has(T, "C01") \/ T.cfg.mdOnly THEN {} ELSE
  { V("C01", "success-reported-with-different-file", i, Kf(T), T.ev[i].side, "") :
      i \in { i \in Calls(T) : /\ ReportsSuccess(T.ev[i])
                               /\ ~FileSame(T.ev[i].fs, DstPathT(T), T.cfg.file)
                               /\ ~(/\ FileCollides(T.ev[i].fs, DstPathT(T), T.cfg.file, T.cfg.chk)
                                     \* the collision clause is for what only the checksum can detect (corrupted payload,
                                     \* rejected writes, loss in unacknowledged mode), not for loss / duplication /
                                     \* reordering / delay in acknowledged mode
                                     /\ (T.ncorrupt > 0 \/ ~AllAckT(T))) } }

\* ===== the outcome C02 and C03 demand once the link is quiet =====
EndClauses(T) ==
  LET fs == FinOf(IndsOf(T, "S"))
      fd == FinOf(IndsOf(T, "D"))
      lastFs == T.ev[LastIdx(Calls(T))].fs IN
  (IF ~T.done THEN {"handlers-not-idle-at-the-end"} ELSE {})
  \cup (IF T.cfg.indS.finished /\ ~(Len(fs) = NTxT(T) /\ \A k \in DOMAIN fs : GoodFin(fs[k])) THEN {"sender-not-exactly-one-successful-finished-indication"} ELSE {})
  \cup (IF T.cfg.indD.finished /\ ~(Len(fd) = NTxT(T) /\ \A k \in DOMAIN fd : GoodFin(fd[k])) THEN {"receiver-not-exactly-one-successful-finished-indication"} ELSE {})
  \cup (IF ~T.cfg.mdOnly /\ ~FileSame(lastFs, DstPathT(T), T.cfg.file) THEN {"destination-file-differs"} ELSE {})
\* ===== C02: every transfer over a fault-free link completes successfully =====
C02(T) ==
  IF ~Has(T, "C02") \/ T.nfaults # 0 THEN {} ELSE
  { V("C02", c, Len(T.ev), Kf(T), "", "") : c \in EndClauses(T) }
  \cup { V("C02", "api-call-raised", i, Kf(T), T.ev[i].exc, T.ev[i].excw) : i \in { i \in Calls(T) : T.ev[i].exc # "none" } }
  \cup { V("C02", "fault-callback-fired", i, Kf(T), T.ev[i].flt[1].cond, T.ev[i].flt[1].k) : i \in { i \in Calls(T) : T.ev[i].flt # <<>> } }
\* ===== C03: acknowledged mode recovers from at most K faults when every limit exceeds K =====
C03(T) ==
  IF ~Has(T, "C03") \/ ~AllAckT(T) \/ T.nfaults >= MinLimit(T) THEN {} ELSE
  { V("C03", c, Len(T.ev), Kf(T), "", "") : c \in EndClauses(T) }

\* ===== C10: only protocol exceptions, only when the caller is at fault =====
ProtocolExc == {"NoRemoteEntityCfgFound", "FsmNotCalledAfterPacketInsertion", "SourceFileDoesNotExist", "ChecksumNotImplemented",
                "UnretrievedPdusToBeSent", "InvalidNakPdu", "InvalidPduDirection", "InvalidSourceId", "InvalidDestinationId",
                "InvalidTransactionSeqNum", "BusyError", "InvalidPduForSourceHandler", "PduIgnoredForSource",
                "InvalidPduForDestHandler", "PduIgnoredForDest"}
AdmissionExc == {"NoRemoteEntityCfgFound", "InvalidPduDirection", "InvalidSourceId", "InvalidDestinationId",
                 "InvalidTransactionSeqNum", "InvalidPduForSourceHandler", "PduIgnoredForSource", "InvalidPduForDestHandler",
                 "PduIgnoredForDest"}
\* the destination sandbox before event i: the snapshot of the previous destination-side event (or the initial one)
FsBefore(T, i) == LET prev == { j \in 1..(i - 1) : T.ev[j].side = "D" } IN
                  IF prev = {} THEN T.fs0 ELSE T.ev[LastIdx(prev)].fs
\* the public observation without the queue counters (retrieving PDUs after the call changes them)
NoQ(pub) == [f \in DOMAIN pub \ {"nready", "qlen"} |-> pub[f]]
C10(T) ==
  IF ~Has(T, "C10") THEN {} ELSE
  { V("C10", "internal-error-leaked", i, Kf(T), T.ev[i].exc, T.ev[i].excw) :
      i \in { i \in Calls(T) : /\ T.ev[i].exc \notin (ProtocolExc \cup {"none"})
                               \* C10 quantifies over PDUs, API calls and timer advances - not over a filestore that refuses
                               \* operations: an OS-level error of the filestore that surfaces after the environment rejected
                               \* a filestore operation earlier in the run is outside its premises (covered by C01 / C05 / C14)
                               /\ ~(/\ T.ev[i].exc \in {"FileNotFoundError", "PermissionError", "IsADirectoryError"}
                                    /\ \E j \in 1..i : "wrej" \in DOMAIN T.ev[j] /\ T.ev[j].wrej) } }
  \cup { V("C10", "unretrieved-pdus-error-with-empty-queue", i, Kf(T), T.ev[i].exc, T.ev[i].excw) :
      i \in { i \in Calls(T) : /\ T.ev[i].exc = "UnretrievedPdusToBeSent"
                               \* the sender publishes a counter (nready) next to the queue itself (qlen): the queue decides
                               /\ (IF T.ev[i].side = "S" THEN T.ev[i].pre.qlen = 0 ELSE T.ev[i].pre.nready = 0) } }
  \cup { V("C10", "rejected-pdu-changed-state", i, Kf(T), T.ev[i].exc, T.ev[i].excw) :
      i \in { i \in Calls(T) : LET e == T.ev[i] IN
                /\ e.call = "fsm" /\ e.arg.t # "none" /\ e.exc \in AdmissionExc
                /\ \/ NoQ(e.post) # NoQ(e.pre)
                   \/ e.pre.nready # e.post.nready + Len(e.out)
                   \/ (e.side = "D" /\ ToSet(e.fs) # ToSet(FsBefore(T, i))) } }

\* ===== source-side streams =====
\* the source file as it is on disk when event i happens (the C09 driver lets it grow mid-transfer)
CurFile(T, i) == LET ch == { j \in 1..(i - 1) : T.ev[j].side = "S" /\ T.ev[j].call = "env" } IN
                 IF ch = {} THEN T.cfg.file ELSE T.ev[LastIdx(ch)].arg.data
Slice(f, off, n) == SubSeq(f, off + 1, PMin(off + n, Len(f)))
\* all PDUs the source emitted, as [i (event), p (PDU)], in order
SrcOut(T) == FoldLeft(LAMBDA acc, i : IF T.ev[i].side = "S" /\ T.ev[i].call # "env"
                                       THEN acc \o [k \in DOMAIN T.ev[i].out |-> [i |-> i, p |-> T.ev[i].out[k]]] ELSE acc,
                      <<>>, [i \in DOMAIN T.ev |-> i])
SeqNums(T) == { x.p.h.qv : x \in ToSet(SrcOut(T)) }
StreamOf(T, qv) == SelectSeq(SrcOut(T), LAMBDA x : x.p.h.qv = qv)
\* the accepted put request that opened the transaction whose first PDU was emitted at event i
PutBefore(T, i) == LET ps == { j \in 1..i : T.ev[j].side = "S" /\ T.ev[j].call = "put" /\ T.ev[j].ret = "true" } IN T.ev[LastIdx(ps)].arg
ReqMode(T, r) == IF r.mode = "none" THEN T.cfg.mode ELSE r.mode
ReqClosure(T, r) == IF r.closure = "none" THEN T.cfg.closure ELSE r.closure = "true"
EffSeg(T, h) == LET d == MaxSegLen(h, T.cfg.maxPkt) IN IF T.cfg.segLen # 0 /\ T.cfg.segLen < d THEN T.cfg.segLen ELSE d
PredLen(p) == CASE p.t = "FD" -> LenFD(p.h, Len(p.data))
                [] p.t = "EOF" -> LenEOF(p.h, IF p.floc.set THEN Len(p.floc.v) ELSE -1)
                [] p.t = "ACK" -> LenACK(p.h)
                [] p.t = "MD" -> LenMD0(p.h, p.opts)
                [] p.t = "NAK" -> LenNAK(p.h, Len(p.reqs))
                [] p.t = "FIN" -> LenFIN(p.h, IF p.floc.set THEN Len(p.floc.v) ELSE -1)
                [] OTHER -> p.plen

\* ===== C07: the source emits a conformant, complete and size-bounded PDU stream (no inbound PDUs before the EOF) =====
\* st: the PDUs of one transaction, r: its request, f: the file
C07Stream(T, st, r, f) ==
  LET n == Len(st)
      h1 == st[1].p.h
      fds == { k \in 1..n : st[k].p.t = "FD" }
      eofs == { k \in 1..n : st[k].p.t = "EOF" }
      size == IF r.mdOnly THEN 0 ELSE Len(f)
      bad(c, k) == {<<c, st[k].i>>}
  IN
  (IF st[1].p.t # "MD" THEN bad("first-pdu-not-metadata", 1)
   ELSE LET m == st[1].p IN
        IF r.mdOnly THEN (IF m.srcName # "none" \/ m.dstName # "none" \/ m.closure # ReqClosure(T, r) THEN bad("metadata-fields", 1) ELSE {})
        ELSE IF m.size # size \/ m.srcName # r.srcName \/ m.dstName # r.dstName \/ m.chkType # T.cfg.chk
                \/ m.closure # ReqClosure(T, r) THEN bad("metadata-fields", 1) ELSE {})
  \cup UNION { (IF st[k].p.h.sv # h1.sv \/ st[k].p.h.dv # h1.dv \/ st[k].p.h.qv # h1.qv \/ st[k].p.h.qw # h1.qw
                   \/ st[k].p.h.sw # st[k].p.h.dw \/ st[k].p.h.sw # h1.sw \/ st[k].p.h.mode # ReqMode(T, r)
                   \/ st[k].p.h.crc # T.cfg.crc \/ st[k].p.h.dir # "TR" \/ st[k].p.h.lf
                THEN bad("header-fields", k) ELSE {})
               \cup (IF st[k].p.rt # "ok" THEN bad("not-parsable", k) ELSE {})
               \cup (IF st[k].p.plen # PredLen(st[k].p) THEN bad("encoded-length-differs-from-the-blue-book-layout", k) ELSE {})
               \cup (IF st[k].p.t \in {"FD", "EOF", "ACK"} /\ st[k].p.plen > T.cfg.maxPkt THEN bad("exceeds-max-packet-length", k) ELSE {})
               \* an ACK acknowledges the Finished PDU the same call received: directive code, and the condition code echoed
               \* (CCSDS 727.0-B-5 5.2.4 - part of "conformant")
               \cup (IF st[k].p.t = "ACK" /\ T.ev[st[k].i].call = "fsm" /\ T.ev[st[k].i].arg.t = "FIN"
                        /\ (st[k].p.acked # "FIN" \/ st[k].p.cond # T.ev[st[k].i].arg.cond)
                     THEN bad("ack-does-not-echo-the-finished-pdu", k) ELSE {})
               : k \in 1..n }
  \* File Data: consecutive from 0, non-empty, within the segment length, the file's bytes, one per call
  \cup UNION { LET p == st[k].p
                   prev == { j \in fds : j < k }
                   exp == IF prev = {} THEN 0 ELSE st[LastIdx(prev)].p.off + Len(st[LastIdx(prev)].p.data) IN
               (IF p.off # exp THEN bad("file-data-not-consecutive", k) ELSE {})
               \cup (IF Len(p.data) = 0 \/ Len(p.data) > EffSeg(T, p.h) THEN bad("file-data-length", k) ELSE {})
               \cup (IF p.data # Slice(f, p.off, Len(p.data)) \/ p.off + Len(p.data) > size THEN bad("file-data-content", k) ELSE {})
               \cup (IF \E j \in fds : j # k /\ st[j].i = st[k].i THEN bad("more-than-one-file-data-pdu-per-call", k) ELSE {})
               : k \in fds }
  \* EOF: after all the file data, size and checksum of the file
  \cup UNION { LET p == st[k].p
                   covered == IF fds = {} THEN 0 ELSE st[LastIdx(fds)].p.off + Len(st[LastIdx(fds)].p.data) IN
               (IF \E j \in fds : j > k THEN bad("file-data-after-eof", k) ELSE {})
               \cup (IF p.cond = "NO_ERROR" /\ (p.size # size \/ covered # size) THEN bad("eof-size-or-coverage", k) ELSE {})
               \cup (IF p.cond = "NO_ERROR" /\ p.chk # FileChecksum(IF r.mdOnly THEN "NULL" ELSE T.cfg.chk, f, size)
                     THEN bad("eof-checksum", k) ELSE {})
               : k \in eofs }
C07(T) ==
  IF ~Has(T, "C07") THEN {} ELSE
  UNION { LET st == StreamOf(T, qv)
              r == PutBefore(T, st[1].i) IN
          { V("C07", x[1], x[2], Kf(T), "", "") : x \in C07Stream(T, st, r, CurFile(T, st[1].i)) }
          : qv \in SeqNums(T) }
  \* a completed fault-free transfer did emit its EOF (unless metadata only)
  \cup { V("C07", "no-eof-emitted", Len(T.ev), Kf(T), "", "") :
         qv \in { q \in SeqNums(T) : Has(T, "C02") /\ ~PutBefore(T, StreamOf(T, q)[1].i).mdOnly
                                     /\ ~\E x \in ToSet(StreamOf(T, q)) : x.p.t = "EOF" } }

\* ===== C08: retransmissions deliver exactly the requested data and nothing else =====
\* walk the re-sent PDUs of one NAK-carrying call against its requests: state = <<request index, position, ok>>
InvalidReq(r, sent) == r[2] < r[1] \/ r[1] > sent \/ r[2] > sent
C08Walk(reqs, pdus, f, seg, sent) ==
  LET skip(st) == \* skip requests that need nothing (zero length, not the metadata request)
        LET RECURSIVE sk(_) sk(x) == IF x[1] <= Len(reqs) /\ reqs[x[1]] # <<0, 0>> /\ reqs[x[1]][1] = reqs[x[1]][2]
                                      THEN sk(<<x[1] + 1, IF x[1] + 1 <= Len(reqs) THEN reqs[x[1] + 1][1] ELSE 0, x[3]>>) ELSE x
        IN sk(st)
      next(k) == <<k + 1, IF k + 1 <= Len(reqs) THEN reqs[k + 1][1] ELSE 0, TRUE>>
      step(st0, p) ==
        LET st == skip(st0) IN
        IF ~st[3] THEN st
        ELSE IF st[1] > Len(reqs) THEN
             \* everything served: one original File Data PDU at the current send offset is tolerated
             (IF p.t = "FD" /\ p.off = sent /\ st[2] # -1 THEN <<st[1], -1, TRUE>> ELSE <<st[1], st[2], FALSE>>)
        ELSE LET r == reqs[st[1]] IN
             IF p.t = "MD" THEN (IF r = <<0, 0>> THEN skip(next(st[1])) ELSE <<st[1], st[2], FALSE>>)
             ELSE IF r = <<0, 0>> THEN <<st[1], st[2], FALSE>>
             ELSE IF p.off = st[2] /\ Len(p.data) >= 1 /\ Len(p.data) <= seg /\ p.off + Len(p.data) <= r[2]
                     /\ p.data = Slice(f, p.off, Len(p.data))
                  THEN (IF p.off + Len(p.data) = r[2] THEN skip(next(st[1])) ELSE <<st[1], p.off + Len(p.data), TRUE>>)
                  ELSE <<st[1], st[2], FALSE>>
      fin == FoldLeft(step, skip(<<1, IF Len(reqs) >= 1 THEN reqs[1][1] ELSE 0, TRUE>>), pdus)
  IN fin[3] /\ skip(fin)[1] > Len(reqs)
C08(T) ==
  IF ~Has(T, "C08") THEN {} ELSE
  \* ... nor does the call that returns from the re-transmission to the wait for the ACK of the EOF
  { V("C08", "nak-disturbed-the-eof-ack-procedure", i, Kf(T), "", "") :
      i \in { i \in OfSide(T, "S") : /\ T.ev[i].call = "fsm" /\ T.ev[i].exc = "none" /\ T.ev[i].pre.step = "RETRANSMITTING"
                                      /\ T.ev[i].post.step = "WAITING_FOR_EOF_ACK" /\ T.ev[i].post.ackCnt # T.ev[i].pre.ackCnt
                                      /\ T.ev[i].flt = <<>> /\ ~\E k \in DOMAIN T.ev[i].out : T.ev[i].out[k].t = "EOF" } }
  \cup
  UNION { LET e == T.ev[i]
              f == CurFile(T, i)
              sent == e.pre.progress
              resent == SelectSeq(e.out, LAMBDA p : p.t \in {"MD", "FD"})
              anyInvalid == \E k \in DOMAIN e.arg.reqs : e.arg.reqs[k] # <<0, 0>> /\ InvalidReq(e.arg.reqs[k], sent) IN
          IF e.exc = "none" THEN
             (IF anyInvalid THEN {V("C08", "invalid-request-not-rejected", i, Kf(T), "", "")} ELSE {})
             \* "resumes exactly where it was": serving a NAK while the EOF awaits its ACK leaves the retry count alone
             \cup (IF e.pre.step = "WAITING_FOR_EOF_ACK" /\ e.post.ackCnt # e.pre.ackCnt /\ e.flt = <<>>
                      /\ ~\E k \in DOMAIN e.out : e.out[k].t = "EOF"
                   THEN {V("C08", "nak-disturbed-the-eof-ack-procedure", i, Kf(T), "", "")} ELSE {})
             \cup (IF ~anyInvalid /\ resent # <<>> /\ ~C08Walk(e.arg.reqs, resent, f, EffSeg(T, resent[1].h), sent)
                   THEN {V("C08", "resent-pdus-do-not-tile-the-requests", i, Kf(T), "", "")} ELSE {})
             \cup (IF ~anyInvalid /\ resent = <<>> /\ \E k \in DOMAIN e.arg.reqs : e.arg.reqs[k] = <<0, 0>> \/ e.arg.reqs[k][1] < e.arg.reqs[k][2]
                   THEN {V("C08", "request-not-served", i, Kf(T), "", "")} ELSE {})
          ELSE IF e.exc = "InvalidNakPdu" THEN
             { V("C08", "file-data-outside-the-file", i, Kf(T), "", "") :
               k \in { k \in DOMAIN e.out : e.out[k].t = "FD" /\ (Len(e.out[k].data) = 0 \/ e.out[k].off + Len(e.out[k].data) > Len(f)) } }
          ELSE {}
          : i \in { i \in OfSide(T, "S") : /\ T.ev[i].call = "fsm" /\ T.ev[i].arg.t = "NAK" /\ T.ev[i].arg.h.mode = "ACK"
                                           /\ T.ev[i].exc \in {"none", "InvalidNakPdu"} /\ T.ev[i].pre.state = "BUSY"
                                           /\ T.ev[i].pre.step \in {"SENDING_FILE_DATA", "WAITING_FOR_EOF_ACK", "WAITING_FOR_FINISHED"} } }
  \* resumption: the original File Data PDUs (emitted by calls without a NAK) are consecutive from 0, none skipped or repeated
  \cup UNION { LET st == StreamOf(T, qv)
                   orig == SelectSeq(st, LAMBDA x : x.p.t = "FD" /\ T.ev[x.i].arg.t # "NAK") IN
               { V("C08", "original-file-data-skipped-or-repeated", orig[k].i, Kf(T), "", "") :
                 k \in { k \in DOMAIN orig : orig[k].p.off # (IF k = 1 THEN 0 ELSE orig[k - 1].p.off + Len(orig[k - 1].p.data)) } }
               \cup { V("C08", "eof-changed-by-retransmission", st[k].i, Kf(T), "", "") :
                      k \in { k \in DOMAIN st : /\ st[k].p.t = "EOF" /\ st[k].p.cond = "NO_ERROR"
                                                /\ st[1].p.t = "MD"
                                                /\ LET f == CurFile(T, st[k].i)  size == st[1].p.size IN
                                                   \/ st[k].p.size # size
                                                   \/ /\ (T.cfg.chk # "MODULAR" \/ Len(f) = size)   \* modular: whole file only (F17)
                                                      /\ st[k].p.chk # FileChecksum(T.cfg.chk, f, size) } }
               \* a NAK must not make the source emit a further EOF: after the retransmission it is back where it was
               \* (an EOF that follows an earlier one is legitimate only as a positive-ACK timer re-send)
               \cup { V("C08", "spurious-eof-after-retransmission", st[k].i, Kf(T), "", "") :
                      k \in { k \in DOMAIN st : /\ st[k].p.t = "EOF" /\ st[k].p.cond = "NO_ERROR"
                                                /\ \E j \in 1..(k - 1) :
                                                      /\ st[j].p.t = "EOF" /\ st[j].p.cond = "NO_ERROR"
                                                      /\ T.ev[st[k].i].now - T.ev[st[j].i].now < T.cfg.ackInt
                                                      \* ... and a NAK was served in between
                                                      /\ \E m \in (st[j].i)..(st[k].i) : /\ T.ev[m].side = "S" /\ T.ev[m].call = "fsm"
                                                                                         /\ T.ev[m].arg.t = "NAK" /\ T.ev[m].exc = "none" } }
               : qv \in SeqNums(T) }

\* ===== C19: put requests are admitted, parameterised and identified correctly =====
SeqModT(T) == IF T.cfg.seqW = 1 THEN 256 ELSE IF T.cfg.seqW = 2 THEN 65536 ELSE 2147483647
C19(T) ==
  IF ~Has(T, "C19") THEN {} ELSE
  LET puts == { i \in OfSide(T, "S") : T.ev[i].call = "put" }
      trans == SelectSeq(IndsOf(T, "S"), LAMBDA x : x.k = "transaction") IN
  { V("C19", "busy-handler-accepted-or-disturbed-by-put-request", i, Kf(T), "", "") :
      i \in { i \in puts : T.ev[i].pre.state = "BUSY" /\ (T.ev[i].ret # "false" \/ NoQ(T.ev[i].post) # NoQ(T.ev[i].pre)
                                                             \/ T.ev[i].pre.nready # T.ev[i].post.nready + Len(T.ev[i].out)
                                                             \/ T.ev[i].ind # <<>> \/ T.ev[i].exc # "none") } }
  \cup { V("C19", "missing-source-file-not-refused", i, Kf(T), T.ev[i].exc, "") :
      i \in { i \in puts : /\ T.ev[i].pre.state = "IDLE" /\ ~T.ev[i].arg.mdOnly /\ ~T.ev[i].arg.exists
                           /\ (T.ev[i].exc # "SourceFileDoesNotExist" \/ T.ev[i].post.state # "IDLE") } }
  \cup { V("C19", "unknown-destination-not-refused", i, Kf(T), T.ev[i].exc, "") :
      i \in { i \in puts : /\ T.ev[i].pre.state = "IDLE" /\ (T.ev[i].arg.mdOnly \/ T.ev[i].arg.exists) /\ ~T.ev[i].arg.known
                           /\ (T.ev[i].exc # "NoRemoteEntityCfgFound" \/ T.ev[i].post.state # "IDLE") } }
  \cup { V("C19", "valid-request-on-idle-handler-not-accepted", i, Kf(T), T.ev[i].exc, T.ev[i].ret) :
      i \in { i \in puts : /\ T.ev[i].pre.state = "IDLE" /\ T.ev[i].pre.nready = 0 /\ (T.ev[i].arg.mdOnly \/ T.ev[i].arg.exists) /\ T.ev[i].arg.known
                           /\ (T.ev[i].ret # "true" \/ T.ev[i].exc # "none" \/ T.ev[i].post.state # "BUSY") } }
  \* mode and closure of every PDU of the transaction: the request's value if given, else the remote configuration's
  \cup UNION { LET st == StreamOf(T, qv)
                   r == PutBefore(T, st[1].i) IN
               { V("C19", "transmission-mode-not-as-requested", st[k].i, Kf(T), "", "") :
                 k \in { k \in DOMAIN st : st[k].p.h.mode # ReqMode(T, r) } }
               \cup { V("C19", "closure-flag-not-as-requested", st[k].i, Kf(T), "", "") :
                      k \in { k \in DOMAIN st : st[k].p.t = "MD" /\ st[k].p.closure # ReqClosure(T, r) } }
               \* segment length: every original File Data PDU but the last of the file has exactly the effective length
               \cup { V("C19", "segment-length-not-min-of-configured-and-derived", st[k].i, Kf(T), "", "") :
                      k \in { k \in DOMAIN st : /\ st[k].p.t = "FD" /\ T.ev[st[k].i].arg.t = "none"
                                                /\ T.ev[st[k].i].pre.step \in {"SENDING_METADATA", "SENDING_FILE_DATA"}
                                                /\ st[1].p.t = "MD"
                                                /\ Len(st[k].p.data) # PMin(EffSeg(T, st[k].p.h), st[1].p.size - st[k].p.off) } }
               : qv \in SeqNums(T) }
  \* each transaction obtains the next value of the sequence-number provider
  \cup { V("C19", "sequence-number-not-the-next-provider-value", k, Kf(T), "", "") :
         k \in { k \in DOMAIN trans : trans[k].tid.seq # (T.cfg.seq0 + k - 1) % SeqModT(T) } }

\* ===== C05: destination file = write model of the accepted File Data PDUs =====
\* independent write model: tree = set of [p, dir, d]; a File Data PDU counts as accepted iff the call that received it
\* raised nothing and issued the File-Segment-Recv indication for it (and the write was not rejected by the environment)
WZeros(n) == [i \in 1..n |-> 0]
WWrite(data, off, d) ==
  IF d = <<>> THEN data
  ELSE LET base == IF Len(data) < off THEN data \o WZeros(off - Len(data)) ELSE data
           n == PMax(Len(base), off + Len(d))
       IN [i \in 1..n |-> IF i > off /\ i <= off + Len(d) THEN d[i - off] ELSE base[i]]
WHasDir(tree, p) == \E f \in tree : f.p = p /\ f.dir
WFile(tree, p) == CHOOSE f \in tree : f.p = p /\ ~f.dir
WHasFile(tree, p) == \E f \in tree : f.p = p /\ ~f.dir
WPut(tree, p, d) == { f \in tree : f.p # p } \cup { [p |-> p, dir |-> FALSE, d |-> d] }
C05Step(mIn, e) ==
  LET m == IF e.pre.state = "IDLE" THEN [mIn EXCEPT !.path = "", !.complete = FALSE] ELSE mIn   \* a new transaction: no resolved path yet
      mds == SelectSeq(e.ind, LAMBDA x : x.k = "metadata_recv" /\ x.dstName # "none")
      m1 == IF mds # <<>> /\ e.arg.t = "MD" THEN
               LET p0 == mds[1].dstName
                   p == IF WHasDir(m.tree, p0) THEN p0 \o "/" \o e.arg.srcBase ELSE p0 IN
               IF WHasDir(m.tree, p) THEN [m EXCEPT !.path = "", !.complete = FALSE]
               ELSE IF e.wrej THEN [m EXCEPT !.path = p, !.complete = FALSE]   \* the filestore refused to create / truncate: nothing changes
               ELSE [tree |-> WPut(m.tree, p, <<>>), path |-> p, complete |-> FALSE]
            ELSE m
      acc == e.arg.t = "FD" /\ e.exc = "none" /\ ~e.wrej /\ m1.path # "" /\ WHasFile(m1.tree, m1.path)
             /\ \E k \in DOMAIN e.ind : e.ind[k].k = "seg_recv" /\ e.ind[k].off = e.arg.off /\ e.ind[k].len = Len(e.arg.data)
      m2 == IF acc THEN [m1 EXCEPT !.tree = WPut(@, m1.path, WWrite(WFile(m1.tree, m1.path).d, e.arg.off, e.arg.data))] ELSE m1
      \* a file whose delivery the receiver has already reported complete (Finished PDU: data complete, file retained) is
      \* not an incomplete file: a later cancellation must not delete it (C12: "an incomplete file is deleted exactly when ...")
      del == ~m2.complete /\ \E k \in DOMAIN e.ind : e.ind[k].k = "finished" /\ e.ind[k].fstat = "DISCARDED_DELIBERATELY"
      m3 == IF del /\ m2.path # "" THEN [m2 EXCEPT !.tree = { f \in @ : f.p # m2.path \/ f.dir }] ELSE m2
      m4 == IF \E k \in DOMAIN e.out : e.out[k].t = "FIN" /\ e.out[k].deliv = "DATA_COMPLETE" /\ e.out[k].fstat = "FILE_RETAINED"
            THEN [m3 EXCEPT !.complete = TRUE]
            ELSE m3
  IN m4
C05(T) ==
  IF ~Has(T, "C05") THEN {} ELSE
  LET ds == SetToSortSeq(OfSide(T, "D"), <)
      \* fold: acc = [m, bad (set of event indices)]
      r == FoldLeft(LAMBDA acc, i : LET m2 == C05Step(acc.m, T.ev[i]) IN
                                    [m |-> m2, bad |-> IF ToSet(T.ev[i].fs) # m2.tree THEN acc.bad \cup {i} ELSE acc.bad],
                    [m |-> [tree |-> ToSet(T.fs0), path |-> "", complete |-> FALSE], bad |-> {}], ds)
  IN { V("C05", "destination-tree-differs-from-the-write-model", i, Kf(T), "", "") : i \in r.bad }

\* ===== C06: NAKs request exactly what is missing =====
Rng(s, e) == { x \in 0..(e - 1) : x >= s }
C06Step(st0, e) ==
  LET st == IF e.pre.state = "IDLE" THEN [stored |-> {}, extent |-> 0, md |-> FALSE, eof |-> -1] ELSE st0   \* new transaction
      ok == e.call = "fsm" /\ e.exc = "none"
      mdNow == ok /\ e.arg.t = "MD" /\ \E k \in DOMAIN e.ind : e.ind[k].k = "metadata_recv"
      accFd == ok /\ e.arg.t = "FD" /\ ~e.wrej /\ \E k \in DOMAIN e.ind : e.ind[k].k = "seg_recv" /\ e.ind[k].off = e.arg.off
  IN [stored |-> IF accFd THEN st.stored \cup Rng(e.arg.off, e.arg.off + Len(e.arg.data)) ELSE st.stored,
      extent |-> IF ok /\ e.arg.t = "FD" THEN PMax(st.extent, e.arg.off + Len(e.arg.data))
                 ELSE IF ok /\ e.arg.t = "EOF" THEN PMax(st.extent, e.arg.size) ELSE st.extent,
      md |-> st.md \/ mdNow,
      eof |-> IF ok /\ e.arg.t = "EOF" /\ e.arg.cond = "NO_ERROR" /\ st.eof < 0 THEN e.arg.size ELSE st.eof]
C06Event(T, i, st0, st) ==   \* st0 / st: the observer state before / after event i (requests are computed before the
                             \* inbound PDU of the same call is stored: "not yet stored when the request was computed")
  LET e == T.ev[i]
      naks == SelectSeq(e.out, LAMBDA p : p.t = "NAK")
      reqsOf(p) == { p.reqs[k] : k \in DOMAIN p.reqs }
      allReqs == UNION { reqsOf(naks[k]) : k \in DOMAIN naks }
      segReqs == { r \in allReqs : r # <<0, 0>> }
      deferredSeq == e.call = "fsm" /\ e.arg.t = "none" /\ st.eof >= 0 /\ naks # <<>> IN
  { V("C06", "metadata-requested-although-received", i, Kf(T), "", "") : r \in { r \in allReqs : r = <<0, 0>> /\ st0.md } }
  \cup { V("C06", "request-outside-the-known-extent", i, Kf(T), "", "") : r \in { r \in segReqs : ~(0 <= r[1] /\ r[1] < r[2] /\ r[2] <= st.extent) } }
  \cup { V("C06", "request-covers-stored-bytes", i, Kf(T), "", "") : r \in { r \in segReqs : r[1] < r[2] /\ Rng(r[1], r[2]) \cap st0.stored # {} } }
  \cup (IF deferredSeq /\ UNION { Rng(r[1], r[2]) : r \in segReqs } # (Rng(0, st.eof) \ st.stored)
        THEN {V("C06", "deferred-nak-sequence-not-exactly-the-missing-bytes", i, Kf(T), "", "")} ELSE {})
  \cup (IF deferredSeq /\ (~st.md) /\ <<0, 0>> \notin allReqs
        THEN {V("C06", "deferred-nak-sequence-omits-the-missing-metadata", i, Kf(T), "", "")} ELSE {})
  \cup { V("C06", "nak-scope-does-not-enclose-its-requests", i, Kf(T), "", "") :
         k \in { k \in DOMAIN naks : deferredSeq /\ \E r \in reqsOf(naks[k]) : r # <<0, 0>> /\ (r[1] < naks[k].sos \/ r[2] > naks[k].eos) } }
  \cup { V("C06", "nak-pdu-exceeds-max-packet-length", i, Kf(T), "", "") :
         k \in { k \in DOMAIN naks : deferredSeq /\ naks[k].plen > T.cfg.maxPkt } }
C06(T) ==
  IF ~Has(T, "C06") THEN {} ELSE
  LET ds == SetToSortSeq(OfSide(T, "D"), <)
      r == FoldLeft(LAMBDA acc, i : LET st2 == C06Step(acc.st, T.ev[i]) IN
                                    [st |-> st2, v |-> IF T.ev[i].call = "fsm" THEN acc.v \cup C06Event(T, i, IF T.ev[i].pre.state = "IDLE" THEN [stored |-> {}, extent |-> 0, md |-> FALSE, eof |-> -1] ELSE acc.st, st2) ELSE acc.v],
                    [st |-> [stored |-> {}, extent |-> 0, md |-> FALSE, eof |-> -1], v |-> {}], ds)
  IN r.v

\* ===== C15: user indications are faithful, causally ordered and gated by configuration =====
\* (demanded of executions in which every queued PDU is retrieved after each call: out = what that call emitted)
IndCount(e, k) == Cardinality({ j \in DOMAIN e.ind : e.ind[j].k = k })
OutCount(e, t) == Cardinality({ j \in DOMAIN e.out : e.out[j].t = t })
RxSteps == {"RECEIVING_FILE_DATA", "RECV_FILE_DATA_WITH_CHECK_LIMIT_HANDLING", "WAITING_FOR_MISSING_DATA"}
\* reserved CFDP messages "cfdp" <type> ...: originating transaction id = 0x0A, proxy put response = 0x07
P15Reserved(m) == Len(m) >= 5 /\ SubSeq(m, 1, 4) = <<99, 102, 100, 112>>
P15Val(b) == FoldLeft(LAMBDA acc, x : acc * 256 + x, 0, b)
P15Orig(msgs) ==
  LET res == { i \in DOMAIN msgs : P15Reserved(msgs[i]) }
      origs == { i \in res : msgs[i][5] = 10 } IN
  IF (\E i \in res : msgs[i][5] = 7) \/ origs = {} THEN [set |-> FALSE, src |-> 0, seq |-> 0]
  ELSE LET m == msgs[LastIdx(origs)]  sl == ((m[6] \div 16) % 8) + 1  ql == (m[6] % 8) + 1 IN
       [set |-> TRUE, src |-> P15Val(SubSeq(m, 7, 6 + sl)), seq |-> P15Val(SubSeq(m, 7 + sl, 6 + sl + ql))]
C15Event(T, i) ==
  LET e == T.ev[i]
      S == e.side = "S"
      icfg == IF S THEN T.cfg.indS ELSE T.cfg.indD
      B(c) == {V("C15", c, i, Kf(T), "", "")} IN
  \* gating
  (IF S /\ ~icfg.eofSent /\ IndCount(e, "eof_sent") > 0 THEN B("disabled-eof-sent-indication-delivered") ELSE {})
  \cup (IF ~S /\ ~icfg.eofRecv /\ IndCount(e, "eof_recv") > 0 THEN B("disabled-eof-recv-indication-delivered") ELSE {})
  \cup (IF ~S /\ ~icfg.segRecv /\ IndCount(e, "seg_recv") > 0 THEN B("disabled-file-segment-recv-indication-delivered") ELSE {})
  \cup (IF ~icfg.finished /\ IndCount(e, "finished") > 0 THEN B("disabled-transaction-finished-indication-delivered") ELSE {})
  \* delivered for every corresponding event
  \cup (IF S /\ icfg.eofSent /\ e.exc = "none" /\ IndCount(e, "eof_sent") # OutCount(e, "EOF") THEN B("eof-sent-indications-differ-from-eof-pdus-emitted") ELSE {})
  \cup (IF ~S /\ icfg.eofRecv /\ e.call = "fsm" /\ e.arg.t = "EOF" /\ e.exc = "none"
           /\ e.pre.step \in {"IDLE", "RECEIVING_FILE_DATA", "RECV_FILE_DATA_WITH_CHECK_LIMIT_HANDLING", "WAITING_FOR_METADATA"}
           /\ IndCount(e, "eof_recv") # 1 THEN B("eof-recv-indication-missing-or-repeated") ELSE {})
  \cup (IF ~S /\ icfg.segRecv /\ e.call = "fsm" /\ e.arg.t = "FD" /\ e.exc = "none" /\ e.pre.step \in RxSteps
           /\ ~(IndCount(e, "seg_recv") = 1 /\ \E j \in DOMAIN e.ind : e.ind[j].k = "seg_recv" /\ e.ind[j].off = e.arg.off /\ e.ind[j].len = Len(e.arg.data))
        THEN B("file-segment-recv-indication-missing-or-wrong") ELSE {})
  \cup (IF ~S /\ IndCount(e, "seg_recv") > 0 /\ ~(e.call = "fsm" /\ e.arg.t = "FD" /\ \A j \in DOMAIN e.ind : e.ind[j].k = "seg_recv" =>
                                                   (e.ind[j].off = e.arg.off /\ e.ind[j].len = Len(e.arg.data)))
        THEN B("file-segment-recv-indication-without-such-a-pdu") ELSE {})
  \cup (IF ~S /\ e.call = "fsm" /\ e.arg.t = "MD" /\ e.exc = "none" /\ e.pre.step \in {"IDLE", "WAITING_FOR_METADATA"}
           /\ ~(IndCount(e, "metadata_recv") = 1 /\ \E j \in DOMAIN e.ind :
                  /\ e.ind[j].k = "metadata_recv" /\ e.ind[j].srcName = e.arg.srcName /\ e.ind[j].dstName = e.arg.dstName
                  /\ e.ind[j].size = (IF e.arg.srcName = "none" THEN -1 ELSE e.arg.size) /\ e.ind[j].src = e.arg.h.sv
                  /\ e.ind[j].msgs = [k \in 1..Len(SelectSeq(e.arg.opts, LAMBDA o : o.t = 2)) |-> SelectSeq(e.arg.opts, LAMBDA o : o.t = 2)[k].v])
        THEN B("metadata-recv-indication-missing-or-unfaithful") ELSE {})
  \cup (IF S /\ e.exc = "none" /\ OutCount(e, "MD") > 0 /\ e.pre.step \in {"IDLE", "TRANSACTION_START"}
           /\ ~(IndCount(e, "transaction") = 1 /\ \E j \in DOMAIN e.ind :
                  /\ e.ind[j].k = "transaction" /\ e.ind[j].tid.set /\ e.ind[j].tid.seq = e.out[1].h.qv /\ e.ind[j].tid.src = e.out[1].h.sv
                  /\ e.ind[j].orig = P15Orig(PutBefore(T, i).msgs))
        THEN B("transaction-indication-missing-or-unfaithful") ELSE {})
  \* Transaction-Finished = the Finished PDU emitted for the same completion
  \cup (IF ~S /\ IndCount(e, "finished") > 0 /\ OutCount(e, "FIN") > 0
           /\ LET f == SelectSeq(e.ind, LAMBDA x : x.k = "finished")  p == SelectSeq(e.out, LAMBDA x : x.t = "FIN") IN
              ~(f[Len(f)].cond = p[Len(p)].cond /\ f[Len(f)].deliv = p[Len(p)].deliv /\ f[Len(f)].fstat = p[Len(p)].fstat)
        THEN B("transaction-finished-indication-differs-from-finished-pdu") ELSE {})
  \* ... and at the sender, the Finished PDU received for it (the last one accepted before the indication)
  \cup (IF S /\ IndCount(e, "finished") > 0
           /\ LET f == SelectSeq(e.ind, LAMBDA x : x.k = "finished")
                  got == { j \in 1..i : /\ T.ev[j].side = "S" /\ T.ev[j].call = "fsm" /\ T.ev[j].arg.t = "FIN" /\ T.ev[j].exc = "none"
                                        /\ T.ev[j].arg.h.qv = f[Len(f)].tid.seq /\ T.ev[j].pre.state = "BUSY"
                                        \* (the Finished PDU the sender acted on: the call that answered it with the ACK)
                                        /\ \E m \in DOMAIN T.ev[j].out : T.ev[j].out[m].t = "ACK" } IN
              got # {} /\ LET p == T.ev[LastIdx(got)].arg IN
                          ~(f[Len(f)].cond = p.cond /\ f[Len(f)].deliv = p.deliv /\ f[Len(f)].fstat = p.fstat)
        THEN B("sender-transaction-finished-indication-differs-from-the-finished-pdu-received") ELSE {})
  \* every indication carries the transaction id of the PDUs
  \cup (IF \E j \in DOMAIN e.ind : ~e.ind[j].tid.set \/ e.ind[j].tid.src # T.cfg.sId
                                   \/ (e.ind[j].tid.seq # e.pre.tseq /\ e.ind[j].tid.seq # e.post.tseq
                                       /\ ~(e.call = "fsm" /\ e.arg.t # "none" /\ e.ind[j].tid.seq = e.arg.h.qv))
        THEN B("indication-with-wrong-or-missing-transaction-id") ELSE {})
C15OrderS(T) ==
  LET q == IndsOf(T, "S")
      pos(k, seq) == { j \in DOMAIN q : q[j].k = k /\ q[j].tid.seq = seq }
      seqs == { q[j].tid.seq : j \in DOMAIN q }
      before(A, B) == \A a \in A, b \in B : a < b IN
  UNION { IF ~(before(pos("transaction", n), pos("eof_sent", n) \cup pos("finished", n)) /\ before(pos("eof_sent", n), pos("finished", n)))
          THEN {V("C15", "sender-indications-out-of-causal-order", 0, Kf(T), "", "")} ELSE {} : n \in seqs }
\* receiver, per transaction (a transaction = the events between two idle states of the handler)
SameTxn(T, j, i) == \A k \in j..(i - 1) : T.ev[k].side # "D" \/ T.ev[k].post.state = "BUSY"
C15OrderD(T) ==
  LET ds == OfSide(T, "D") IN
  { V("C15", "file-segment-recv-before-metadata-recv", i, Kf(T), "", "") :
      i \in { i \in ds : /\ IndCount(T.ev[i], "seg_recv") > 0
                          /\ ~\E j \in ds : j <= i /\ IndCount(T.ev[j], "metadata_recv") > 0 /\ SameTxn(T, j, i) } }
  \cup { V("C15", "indication-after-transaction-finished", i, Kf(T), "", "") :
      i \in { i \in ds : /\ IndCount(T.ev[i], "seg_recv") + IndCount(T.ev[i], "eof_recv") + IndCount(T.ev[i], "metadata_recv") > 0
                          /\ \E j \in ds : j < i /\ IndCount(T.ev[j], "finished") > 0 /\ SameTxn(T, j, i) } }
C15(T) ==
  IF ~Has(T, "C15") THEN {} ELSE
  UNION { C15Event(T, i) : i \in Calls(T) } \cup C15OrderS(T) \cup C15OrderD(T)

\* ===== C12: cancellation takes effect immediately and is signalled correctly =====
IdBytesP(w, v) == [i \in 1..w |-> (v \div (256 ^ (w - i))) % 256]
NextIdx(S) == CHOOSE i \in S : \A j \in S : i <= j
C12(T) ==
  IF ~Has(T, "C12") THEN {} ELSE
  LET cancels == { i \in Calls(T) : T.ev[i].call = "cancel" /\ T.ev[i].exc = "none" }
      B(c, i) == {V("C12", c, i, Kf(T), "", "")} IN
  \* (a) the return value
  UNION { IF (T.ev[i].ret = "true") # (T.ev[i].pre.state = "BUSY" /\ T.ev[i].pre.tidSet /\ T.ev[i].arg.right)
          THEN B("cancel-request-return-value", i) ELSE {} : i \in cancels }
  \* (b) sender: the next PDU is the EOF (cancel) for the bytes sent, no new file data afterwards
  \cup UNION { LET e == T.ev[i]
                   sent == e.pre.progress
                   f == CurFile(T, i)
                   later == SelectSeq(SrcOut(T), LAMBDA x : x.i >= i /\ x.p.h.qv = e.pre.tseq) IN
               (IF later # <<>> /\ ~(/\ later[1].p.t = "EOF" /\ later[1].p.cond = "CANCEL_REQUEST_RECEIVED" /\ later[1].p.size = sent
                                      /\ ((T.cfg.chk = "MODULAR" /\ sent # Len(f))
                                          \/ later[1].p.chk = FileChecksum(IF T.ev[i].pre.fileSize < 0 \/ PutBefore(T, i).mdOnly THEN "NULL" ELSE T.cfg.chk, f, sent)))
                THEN B("next-pdu-after-cancel-is-not-the-eof-cancel-for-the-bytes-sent", i) ELSE {})
               \* every further copy of that EOF (re-sent by the positive ACK procedure) is the same EOF
               \* (not judged in runs whose driver changes the source file on disk mid-transfer: the modular checksum covers
               \* the file as it is when the copy is made, observation F17)
               \cup (IF later # <<>> /\ later[1].p.t = "EOF" /\ ~(\E j \in OfSide(T, "S") : T.ev[j].call = "env")
                        /\ \E k \in DOMAIN later : /\ later[k].p.t = "EOF" /\ later[k].p.cond = "CANCEL_REQUEST_RECEIVED"
                                                    /\ (later[k].p.size # later[1].p.size \/ later[k].p.chk # later[1].p.chk)
                     THEN B("re-sent-eof-cancel-differs-from-the-first", i) ELSE {})
               \cup (IF later = <<>> /\ e.pre.step \notin {"NOTICE_OF_COMPLETION"} /\ \E j \in OfSide(T, "S") : j > i /\ T.ev[j].call = "fsm" /\ T.ev[j].exc = "none"
                     THEN B("no-eof-cancel-emitted-after-cancel", i) ELSE {})
               \cup (IF \E k \in DOMAIN later : later[k].p.t = "FD" /\ later[k].p.off + Len(later[k].p.data) > sent
                     THEN B("new-file-data-emitted-after-cancel", i) ELSE {})
               : i \in { i \in cancels : T.ev[i].side = "S" /\ T.ev[i].ret = "true"
                                       \* the first cancellation of the transaction (a later one abandons it, CFDP 4.11.2.2.3)
                                       /\ ~\E x \in ToSet(SrcOut(T)) : x.i < i /\ x.p.h.qv = T.ev[i].pre.tseq /\ x.p.t = "EOF" /\ x.p.cond # "NO_ERROR" } }
  \* (c) receiver, local cancel: Transaction-Finished with Cancel Request Received at the next call; Finished PDU with the
  \*     local entity as fault location when one is due
  \cup UNION { LET e == T.ev[i]
                   nxt == { j \in OfSide(T, "D") : j > i /\ T.ev[j].call = "fsm" /\ T.ev[j].exc = "none" } IN
               IF nxt = {} THEN {} ELSE
               LET n == T.ev[NextIdx(nxt)]
                   fins == SelectSeq(n.ind, LAMBDA x : x.k = "finished")
                   pdus == SelectSeq(n.out, LAMBDA x : x.t = "FIN") IN
               (IF T.cfg.indD.finished /\ ~(fins # <<>> /\ fins[1].cond = "CANCEL_REQUEST_RECEIVED")
                THEN B("no-transaction-finished-cancel-indication-at-the-next-call", i) ELSE {})
               \cup (IF pdus # <<>> /\ ~(pdus[1].cond = "CANCEL_REQUEST_RECEIVED" /\ pdus[1].floc.set /\ pdus[1].floc.v = IdBytesP(T.cfg.dIdW, T.cfg.dId))
                     THEN B("finished-pdu-after-local-cancel-wrong-condition-or-fault-location", i) ELSE {})
               : i \in { i \in cancels : T.ev[i].side = "D" /\ T.ev[i].ret = "true" } }
  \* (d) EOF (cancel) received: finishes with the EOF's condition, the sender as fault location; file deleted iff configured
  \cup UNION { LET e == T.ev[i]
                   nxt == { j \in OfSide(T, "D") : j >= i /\ T.ev[j].exc = "none" /\ T.ev[j].post.tseq \in {e.post.tseq, -1}
                                                  /\ \E k \in DOMAIN T.ev[j].ind : T.ev[j].ind[k].k = "finished" } IN
               IF nxt = {} \/ ~T.cfg.indD.finished THEN {} ELSE
               LET j == NextIdx(nxt)
                   n == T.ev[j]
                   fin == SelectSeq(n.ind, LAMBDA x : x.k = "finished")[1]
                   pdus == SelectSeq(n.out, LAMBDA x : x.t = "FIN")
                   path == DstPathT(T)
                   had == \E k \in DOMAIN FsBefore(T, j) : FsBefore(T, j)[k].p = path /\ ~FsBefore(T, j)[k].dir
                   has == \E k \in DOMAIN n.fs : n.fs[k].p = path /\ ~n.fs[k].dir IN
               (IF fin.cond # e.arg.cond THEN B("eof-cancel-condition-not-reported", j) ELSE {})
               \cup (IF pdus # <<>> /\ ~(pdus[1].cond = e.arg.cond /\ pdus[1].floc.set /\ pdus[1].floc.v = IdBytesP(T.cfg.sIdW, T.cfg.sId))
                     THEN B("finished-pdu-after-eof-cancel-wrong-condition-or-fault-location", j) ELSE {})
               \* (incomplete: judged from the sandbox - the file is not the source file - not from the delivery code the handler reports)
               \cup (IF had /\ T.cfg.disp /\ ~FileSame(FsBefore(T, j), path, T.cfg.file) /\ has
                     THEN B("incomplete-file-not-deleted-although-disposition-configured", j) ELSE {})
               \cup (IF had /\ ~T.cfg.disp /\ ~has THEN B("file-deleted-although-not-configured", j) ELSE {})
               : i \in { i \in OfSide(T, "D") : /\ T.ev[i].call = "fsm" /\ T.ev[i].arg.t = "EOF" /\ T.ev[i].arg.cond # "NO_ERROR"
                                                /\ T.ev[i].exc = "none" /\ T.ev[i].pre.step \in {"RECEIVING_FILE_DATA", "RECV_FILE_DATA_WITH_CHECK_LIMIT_HANDLING"}
                                                /\ ~\E c \in cancels : T.ev[c].side = "D" /\ T.ev[c].ret = "true" /\ T.ev[c].pre.tseq = T.ev[i].pre.tseq } }

\* ===== C13: unacknowledged transfers tolerate EOF overtaking file data up to the check limit =====
\* The observer follows the check timer from the clock: it starts at the call that accepted the EOF while data was
\* outstanding and restarts at every expiry; an expiry = a destination call at which now - start >= interval.
\* the checksum type announced by the Metadata PDU of the transaction running at event i
TxnChk(T, i) == LET mds == { j \in 1..i : T.ev[j].side = "D" /\ T.ev[j].call = "fsm" /\ T.ev[j].arg.t = "MD" /\ T.ev[j].exc = "none"
                                         /\ \E k \in DOMAIN T.ev[j].ind : T.ev[j].ind[k].k = "metadata_recv" } IN
                IF mds = {} THEN T.cfg.chk ELSE T.ev[LastIdx(mds)].arg.chkType
DstFileOk(T, i, fs, chk, size) ==
  TxnChk(T, i) = "NULL" \/ \E j \in DOMAIN fs : fs[j].p = DstPathT(T) /\ ~fs[j].dir /\ FileChecksum(TxnChk(T, i), fs[j].d, size) = chk
C13Walk(T, i) ==   \* i: the event that accepted an EOF (no error) in unacknowledged mode and entered check-limit handling
  LET eof == T.ev[i].arg
      later == SetToSortSeq({ j \in OfSide(T, "D") : j > i }, <)
      \* st = [on, start, n (expiries so far), v (violations)]
      step(st, j) ==
        LET e == T.ev[j] IN
        IF ~st.on \/ e.call # "fsm" \/ e.pre.step # "RECV_FILE_DATA_WITH_CHECK_LIMIT_HANDLING" \/ e.pre.tseq # T.ev[i].post.tseq
        THEN [st EXCEPT !.on = st.on /\ e.pre.state = "BUSY" /\ e.pre.tseq = T.ev[i].post.tseq /\ e.call # "reset"]
        ELSE IF e.exc # "none" \/ (e.arg.t = "EOF")  \* a refused PDU does not run the procedure; a second EOF restarts the episode
        THEN [st EXCEPT !.on = e.exc # "none"]
        ELSE
        IF \E k \in DOMAIN e.flt : e.flt[k].cond \notin {"CHECK_LIMIT_REACHED", "FILE_CHECKSUM_FAILURE"}
        THEN [st EXCEPT !.on = FALSE]    \* another fault (file size error, filestore rejection) decides this call
        ELSE
        LET expired == e.now - st.start >= T.cfg.chkInt
            complete == DstFileOk(T, i, e.fs, eof.chk, eof.size)
            limitFlt == \E k \in DOMAIN e.flt : e.flt[k].cond = "CHECK_LIMIT_REACHED"
            finGood == \E k \in DOMAIN e.ind : e.ind[k].k = "finished" /\ e.ind[k].cond = "NO_ERROR" /\ e.ind[k].deliv = "DATA_COMPLETE"
            finAny == \E k \in DOMAIN e.ind : e.ind[k].k = "finished"
            B(c) == {V("C13", c, j, Kf(T), "", "")} IN
        IF ~expired THEN
           [st EXCEPT !.v = @ \cup (IF limitFlt THEN B("check-limit-fault-before-the-timer-expired") ELSE {})
                                 \cup (IF finAny /\ e.post.state = "IDLE" /\ e.flt = <<>> /\ ~\E k \in 1..j : T.ev[k].call = "cancel" /\ T.ev[k].side = "D"
                                       THEN B("transaction-finished-before-a-check-timer-expiry") ELSE {}),
                      !.on = e.post.step = "RECV_FILE_DATA_WITH_CHECK_LIMIT_HANDLING"]
        ELSE IF complete THEN
           [st EXCEPT !.on = FALSE,
                      !.v = @ \cup (IF limitFlt THEN B("check-limit-fault-although-the-file-is-complete") ELSE {})
                              \cup (IF T.cfg.indD.finished /\ ~finGood /\ T.cfg.fhD["FILE_CHECKSUM_FAILURE"] = "ignore" THEN B("complete-file-not-reported-successful-at-the-expiry") ELSE {})]
        ELSE IF st.n + 1 >= T.cfg.chkLim THEN
           [st EXCEPT !.on = FALSE,
                      !.v = @ \cup (IF ~limitFlt /\ T.cfg.fhD["FILE_CHECKSUM_FAILURE"] = "ignore" THEN B("no-check-limit-fault-at-the-limit-th-expiry") ELSE {})
                              \cup (IF finGood THEN B("incomplete-file-reported-successful") ELSE {})]
        ELSE [st EXCEPT !.n = @ + 1, !.start = e.now,
                        !.v = @ \cup (IF limitFlt THEN B("check-limit-fault-before-the-limit-th-expiry") ELSE {})
                                \cup (IF finGood THEN B("incomplete-file-reported-successful") ELSE {})]
  IN FoldLeft(step, [on |-> TRUE, start |-> T.ev[i].now, n |-> 0, v |-> {}], later).v
C13(T) ==
  IF ~Has(T, "C13") THEN {} ELSE
  \* receiver: EOF overtaking data does not finish the transaction at once ...
  UNION { C13Walk(T, i)
          : i \in { i \in OfSide(T, "D") : /\ T.ev[i].call = "fsm" /\ T.ev[i].arg.t = "EOF" /\ T.ev[i].arg.cond = "NO_ERROR" /\ T.ev[i].arg.h.mode = "UNACK"
                                           /\ T.ev[i].exc = "none" /\ T.ev[i].pre.step = "RECEIVING_FILE_DATA"
                                           /\ T.ev[i].post.step = "RECV_FILE_DATA_WITH_CHECK_LIMIT_HANDLING" } }
  \* (judged independently of the step the handler chose: the file in the sandbox does not match the EOF checksum, the
  \* checksum failure is ignored by the table and no other fault was declared - then the transaction stays open)
  \cup { V("C13", "finished-at-the-eof-although-data-is-outstanding", i, Kf(T), "", "") :
         i \in { i \in OfSide(T, "D") : /\ T.ev[i].call = "fsm" /\ T.ev[i].arg.t = "EOF" /\ T.ev[i].arg.cond = "NO_ERROR" /\ T.ev[i].arg.h.mode = "UNACK"
                                          /\ T.ev[i].exc = "none" /\ T.ev[i].pre.step = "RECEIVING_FILE_DATA"
                                          /\ TxnChk(T, i) \in {"CRC32", "CRC32C"} /\ T.cfg.fhD["FILE_CHECKSUM_FAILURE"] = "ignore" /\ T.cfg.chkLim > 0
                                          /\ ~DstFileOk(T, i, T.ev[i].fs, T.ev[i].arg.chk, T.ev[i].arg.size)
                                          /\ ~(\E k \in DOMAIN T.ev[i].flt : T.ev[i].flt[k].cond # "FILE_CHECKSUM_FAILURE")
                                          /\ (T.ev[i].post.state = "IDLE" \/ \E m \in DOMAIN T.ev[i].ind : T.ev[i].ind[m].k = "finished") } }
  \* ... and an EOF for an incomplete file must not complete the transfer successfully
  \cup { V("C13", "incomplete-file-reported-successful-at-the-eof", i, Kf(T), "", "") :
         i \in { i \in OfSide(T, "D") : /\ T.ev[i].call = "fsm" /\ T.ev[i].arg.t = "EOF" /\ T.ev[i].arg.cond = "NO_ERROR" /\ T.ev[i].arg.h.mode = "UNACK"
                                          /\ T.ev[i].exc = "none" /\ T.ev[i].pre.step = "RECEIVING_FILE_DATA" /\ TxnChk(T, i) \in {"CRC32", "CRC32C"}
                                          /\ (\E k \in DOMAIN T.ev[i].ind : T.ev[i].ind[k].k = "finished" /\ T.ev[i].ind[k].cond = "NO_ERROR" /\ T.ev[i].ind[k].deliv = "DATA_COMPLETE")
                                          /\ ~DstFileOk(T, i, T.ev[i].fs, T.ev[i].arg.chk, T.ev[i].arg.size) } }
  \* sender with closure: no Finished PDU before the check timer expires => Check Limit Reached
  \cup UNION { LET e0 == T.ev[i]
                   later == { j \in OfSide(T, "S") : j > i /\ T.ev[j].call = "fsm" /\ T.ev[j].pre.tseq = e0.post.tseq
                                                     /\ T.ev[j].pre.step = "WAITING_FOR_FINISHED" /\ T.ev[j].exc = "none" /\ T.ev[j].arg.t = "none" }
                   early == { j \in later : T.ev[j].now - e0.now < T.cfg.chkInt }
                   late == { j \in later : T.ev[j].now - e0.now >= T.cfg.chkInt } IN
               { V("C13", "sender-check-limit-fault-before-the-timer-expired", j, Kf(T), "", "") :
                 j \in { j \in early : \E k \in DOMAIN T.ev[j].flt : T.ev[j].flt[k].cond = "CHECK_LIMIT_REACHED" } }
               \cup (IF late # {} /\ (\A j \in later : j < NextIdx(late) => T.ev[j].post.step = "WAITING_FOR_FINISHED")
                        /\ ~\E k \in DOMAIN T.ev[NextIdx(late)].flt : T.ev[NextIdx(late)].flt[k].cond = "CHECK_LIMIT_REACHED"
                     THEN {V("C13", "sender-no-check-limit-fault-at-the-expiry", NextIdx(late), Kf(T), "", "")} ELSE {})
               : i \in { i \in OfSide(T, "S") : /\ T.ev[i].call = "fsm" /\ T.ev[i].exc = "none" /\ T.ev[i].post.step = "WAITING_FOR_FINISHED"
                                                /\ \E k \in DOMAIN T.ev[i].out : T.ev[i].out[k].t = "EOF" /\ T.ev[i].out[k].cond = "NO_ERROR"
                                                                                 /\ T.ev[i].out[k].h.mode = "UNACK" } }

\* ===== C14: declared faults take the effect configured in the fault-handler table =====
TableConds == {"POSITIVE_ACK_LIMIT_REACHED", "KEEP_ALIVE_LIMIT_REACHED", "INVALID_TRANSMISSION_MODE", "FILESTORE_REJECTION",
               "FILE_CHECKSUM_FAILURE", "FILE_SIZE_ERROR", "NAK_LIMIT_REACHED", "INACTIVITY_DETECTED", "CHECK_LIMIT_REACHED",
               "UNSUPPORTED_CHECKSUM_TYPE", "CANCEL_REQUEST_RECEIVED"}
\* a cancellation is already in progress before event i on that side (then any further fault abandons: CFDP 4.11.2.2.3 / 4.11.2.3.3)
CancelInProgress(T, i, side, seq) ==
  \E j \in 1..(i - 1) : /\ T.ev[j].side = side
                        /\ \/ (T.ev[j].call = "cancel" /\ T.ev[j].ret = "true" /\ T.ev[j].pre.tseq = seq)
                           \/ \E k \in DOMAIN T.ev[j].flt : T.ev[j].flt[k].k = "cancel" /\ T.ev[j].flt[k].tid.seq = seq
                           \/ \E k \in DOMAIN T.ev[j].out : T.ev[j].out[k].h.qv = seq /\ T.ev[j].out[k].t \in {"EOF", "FIN"} /\ T.ev[j].out[k].cond # "NO_ERROR"
                           \/ (T.ev[j].call = "fsm" /\ T.ev[j].arg.t = "EOF" /\ T.ev[j].arg.cond # "NO_ERROR" /\ T.ev[j].exc = "none" /\ T.ev[j].arg.h.qv = seq)
C14(T) ==
  IF ~Has(T, "C14") THEN {} ELSE
  UNION { LET e == T.ev[i]
              tbl == IF e.side = "S" THEN T.cfg.fhS ELSE T.cfg.fhD
              B(c, f) == {V("C14", c, i, Kf(T), f.cond, f.k)} IN
          UNION { LET f == e.flt[k]
                      code == tbl[f.cond]
                      inProgress == CancelInProgress(T, i, e.side, f.tid.seq)
                      exempt == f.k = "abandon" /\ inProgress IN
                  (IF ~exempt /\ f.k # code THEN B("callback-kind-differs-from-the-configured-handler-code", f) ELSE {})
                  \* (the transaction of the call: the running one, or the one the inbound PDU has just started)
                  \cup (IF ~f.tid.set \/ (e.pre.tidSet /\ f.tid.seq # e.pre.tseq)
                           \/ (~e.pre.tidSet /\ e.call = "fsm" /\ e.arg.t # "none" /\ f.tid.seq # e.arg.h.qv)
                        THEN B("callback-with-wrong-or-missing-transaction-id", f) ELSE {})
                  \* (an ignored fault may legitimately be declared again by a later evaluation in the same call - advancement and
                  \* step handler, packet and timer - so the "invoked once" clause is judged for cancelling / abandoning codes, after
                  \* which the same condition cannot be declared again; repeated ignore callbacks are left to conformance)
                  \* (notice of suspension is a stub in the library - callback, transaction continues - and is treated like ignore)
                  \cup (IF code \in {"cancel", "abandon"} /\ ~exempt /\ \E m \in DOMAIN e.flt : m # k /\ e.flt[m].cond = f.cond /\ e.flt[m].k = f.k
                        THEN B("more-than-one-callback-for-one-fault", f) ELSE {})
                  \* the effect
                  \* ignore: the transaction continues - it is not cancelled with that condition (it may well complete regularly
                  \* in the same call) and nothing is raised
                  \cup (IF ~exempt /\ f.k = "ignore" /\ code = "ignore"
                           /\ (\/ \E m \in DOMAIN e.out : e.out[m].t \in {"EOF", "FIN"} /\ e.out[m].cond = f.cond
                               \/ \E m \in DOMAIN e.ind : e.ind[m].k = "finished" /\ e.ind[m].cond = f.cond)
                        THEN B("ignored-fault-cancelled-the-transaction", f) ELSE {})
                  \cup (IF ~exempt /\ f.k = "abandon" /\ code = "abandon" /\ (e.post.state # "IDLE" \/ e.exc # "none")
                        THEN B("abandoned-transaction-not-idle-or-call-raised", f) ELSE {})
                  \cup (IF ~exempt /\ ~inProgress /\ f.k = "cancel" /\ code = "cancel" /\ e.side = "S" /\ e.exc = "none"
                           /\ (~\E m \in DOMAIN e.out : e.out[m].t = "EOF" /\ e.out[m].cond = f.cond)
                        THEN B("cancelling-fault-without-eof-carrying-the-condition", f) ELSE {})
                  \cup (IF ~exempt /\ ~inProgress /\ f.k = "cancel" /\ code = "cancel" /\ e.side = "D" /\ e.exc = "none"
                           /\ (~\E j \in i..Len(T.ev) : /\ T.ev[j].side = "D"
                                                        /\ \/ \E m \in DOMAIN T.ev[j].ind : T.ev[j].ind[m].k = "finished" /\ T.ev[j].ind[m].cond = f.cond
                                                           \/ \E m \in DOMAIN T.ev[j].out : T.ev[j].out[m].t = "FIN" /\ T.ev[j].out[m].cond = f.cond)
                           /\ (\E j \in (i + 1)..Len(T.ev) : T.ev[j].side = "D" /\ T.ev[j].call = "fsm" /\ T.ev[j].exc = "none")
                           /\ (T.cfg.indD.finished \/ e.post.step # "IDLE")
                        THEN B("cancelling-fault-not-reported-to-user-or-peer", f) ELSE {})
                  : k \in DOMAIN e.flt }
          \cup (IF \E k \in DOMAIN e.ind : ~e.ind[k].tid.set THEN {V("C14", "indication-refers-to-a-missing-transaction-id", i, Kf(T), "", "")} ELSE {})
          : i \in Calls(T) }
\* the configuration API: set_handler refuses exactly the conditions outside the table (T.kind = "fhtable": one event per attempt)
C14Table(T) ==
  IF T.kind # "fhtable" THEN {} ELSE
  { V("C14", "set-handler-accepts-or-refuses-the-wrong-condition", i, "none", T.ev[i].cond, T.ev[i].exc) :
    i \in { i \in DOMAIN T.ev : (T.ev[i].exc = "ValueError") # (T.ev[i].cond \notin TableConds) \/ T.ev[i].exc \notin {"none", "ValueError"} } }
  \cup { V("C14", "configured-code-not-returned-by-the-table", i, "none", T.ev[i].cond, T.ev[i].got) :
    i \in { i \in DOMAIN T.ev : T.ev[i].exc = "none" /\ T.ev[i].got # T.ev[i].code } }

\* ===== C04: retry limits are honoured exactly; a silent peer cannot hang a transaction =====
\* Observers over the clock and the emitted PDUs only.  For a positive-ACK procedure (EOF at the sender, Finished at the
\* receiver): the timer restarts at every (re-)emission, an expiry is a call at which now - last emission >= interval,
\* the retry count is the number of emissions carrying the current condition code minus one.
EmitIdx(T, side, seq, kind, upto) ==   \* events < upto of that side that emitted a PDU of that kind for that transaction
  { j \in 1..(upto - 1) : T.ev[j].side = side /\ \E k \in DOMAIN T.ev[j].out : T.ev[j].out[k].t = kind /\ T.ev[j].out[k].h.qv = seq }
LastPduOf(e, kind) == LET q == SelectSeq(e.out, LAMBDA p : p.t = kind) IN q[Len(q)]
HasFlt(e, cond) == \E k \in DOMAIN e.flt : e.flt[k].cond = cond
C04Ack(T, side, kind, waitStep, lim) ==
  UNION { LET e == T.ev[i]
              ems == EmitIdx(T, side, e.pre.tseq, kind, i) IN
          IF ems = {} THEN {} ELSE
          LET lastE == LastIdx(ems)
              cond == LastPduOf(T.ev[lastE], kind).cond
              \* a fresh start of the procedure: the PDU was not emitted by a timer re-send (other step, a cancel request, or the
              \* call that declared the limit fault and cancelled); re-sends = emissions since the last fresh start
              fresh == { j \in ems : T.ev[j].pre.step \notin {waitStep, "RETRANSMITTING"} \/ T.ev[j].call # "fsm" \/ HasFlt(T.ev[j], "POSITIVE_ACK_LIMIT_REACHED") }
              resends == IF fresh = {} THEN Cardinality(ems) - 1 ELSE Cardinality({ j \in ems : j > LastIdx(fresh) })
              expired == e.now - T.ev[lastE].now >= (IF side = "D" /\ T.cfg.ackIntD # 0 THEN T.cfg.ackIntD ELSE T.cfg.ackInt)
              resent == \E k \in DOMAIN e.out : e.out[k].t = kind /\ e.out[k].cond = cond
              limitFlt == HasFlt(e, "POSITIVE_ACK_LIMIT_REACHED") \/ (cond # "NO_ERROR" /\ \E k \in DOMAIN e.flt : e.flt[k].k = "abandon")
              B(c) == {V("C04", c, i, Kf(T), kind, "")} IN
          (IF ~expired /\ resent THEN B("re-sent-before-the-timer-expired") ELSE {})
          \cup (IF ~expired /\ HasFlt(e, "POSITIVE_ACK_LIMIT_REACHED") THEN B("positive-ack-limit-fault-before-the-timer-expired") ELSE {})
          \cup (IF expired /\ resends + 1 < lim /\ limitFlt THEN B("positive-ack-limit-fault-before-the-limit-th-expiry") ELSE {})
          \cup (IF expired /\ resends + 1 < lim /\ ~resent /\ ~limitFlt THEN B("not-re-sent-at-the-expiry") ELSE {})
          \cup (IF expired /\ resends + 1 >= lim /\ ~limitFlt THEN B("no-positive-ack-limit-fault-at-the-limit-th-expiry") ELSE {})
          \* the PDU awaiting its ACK already carries a cancellation: if that exchange times out as well the transaction is abandoned
          \cup (IF expired /\ resends + 1 >= lim /\ cond # "NO_ERROR" /\ e.post.state # "IDLE"
                THEN B("cancellation-exchange-timed-out-but-transaction-not-abandoned") ELSE {})
          : i \in { i \in OfSide(T, side) : /\ T.ev[i].call = "fsm" /\ T.ev[i].exc = "none" /\ T.ev[i].pre.step = waitStep
                                             /\ T.ev[i].arg.t = "none" } }
\* deferred NAK procedure: issuance = a poll (no inbound PDU) that emits NAK PDUs while the procedure is active, or the call
\* that started the procedure; progress (File Data while waiting for data, Metadata / EOF while waiting for metadata) restarts
\* timer and count
C04Nak(T) ==
  LET ds == SetToSortSeq(OfSide(T, "D"), <)
      NakSteps == {"WAITING_FOR_MISSING_DATA", "WAITING_FOR_METADATA"}
      \* st: lastOld / nMax follow the reading with the fewest restarts (only what certainly is progress: File Data accepted
      \* while waiting for data, Metadata / EOF while waiting for metadata), lastNew / nMin the one with the most (any inbound
      \* PDU).  "Never earlier" is judged against the first, "never later" against the second, so that neither demands more
      \* than the statement.
      step(st, i) ==
        LET e == T.ev[i]
            naks == \E k \in DOMAIN e.out : e.out[k].t = "NAK"
            active == e.pre.deferred /\ e.pre.step \in NakSteps
            stillOn == e.post.deferred /\ e.post.step \in NakSteps
            B(c) == {V("C04", c, i, Kf(T), "NAK", "")} IN
        IF e.call # "fsm" \/ e.exc # "none" THEN (IF e.post.state = "IDLE" \/ ~stillOn THEN [st EXCEPT !.on = FALSE] ELSE st)
        ELSE IF ~active THEN
             (IF stillOn THEN [on |-> TRUE, lastOld |-> e.now, lastNew |-> e.now, nMax |-> 0, nMin |-> 0, v |-> st.v] ELSE [st EXCEPT !.on = FALSE])
        ELSE IF ~st.on THEN st
        ELSE IF e.arg.t # "none" THEN
             LET sure == \/ (e.arg.t = "FD" /\ e.pre.step = "WAITING_FOR_MISSING_DATA")
                         \/ (e.arg.t \in {"MD", "EOF"} /\ e.pre.step = "WAITING_FOR_METADATA") IN
             \* (a call with an inbound PDU may itself re-issue the sequence: counted for the reading with the most expiries)
             [st EXCEPT !.lastNew = e.now, !.nMin = 0, !.lastOld = IF sure \/ naks THEN e.now ELSE @,
                        !.nMax = IF sure THEN 0 ELSE IF naks THEN @ + 1 ELSE @, !.on = stillOn]
        ELSE LET limitFlt == HasFlt(e, "NAK_LIMIT_REACHED")
                 surelyNot == e.now - st.lastOld < T.cfg.nakInt      \* not expired under any reading
                 surely == e.now - st.lastNew >= T.cfg.nakInt        \* expired under every reading
                 v1 == (IF surelyNot /\ naks THEN B("nak-sequence-re-issued-before-the-timer-expired") ELSE {})
                       \cup (IF surelyNot /\ limitFlt THEN B("nak-limit-fault-before-the-timer-expired") ELSE {})
                       \cup (IF limitFlt /\ st.nMax + 1 < T.cfg.nakLim THEN B("nak-limit-fault-before-the-limit-th-expiry") ELSE {})
                       \cup (IF surely /\ st.nMin + 1 < T.cfg.nakLim /\ ~naks /\ ~limitFlt /\ stillOn THEN B("nak-sequence-not-re-issued-at-the-expiry") ELSE {})
                       \cup (IF surely /\ st.nMin + 1 >= T.cfg.nakLim /\ ~limitFlt /\ stillOn THEN B("no-nak-limit-fault-at-the-limit-th-expiry") ELSE {}) IN
             IF naks THEN [st EXCEPT !.v = @ \cup v1, !.nMax = @ + 1, !.nMin = @ + 1, !.lastOld = e.now, !.lastNew = e.now, !.on = stillOn]
             ELSE [st EXCEPT !.v = @ \cup v1, !.on = stillOn /\ ~limitFlt]
  IN FoldLeft(step, [on |-> FALSE, lastOld |-> 0, lastNew |-> 0, nMax |-> 0, nMin |-> 0, v |-> {}], ds).v
\* a peer that has fallen silent (T.cuts: links cut for good) cannot keep a handler busy, except in the two waits the statement
\* leaves unbounded: sender awaiting Finished after its EOF was acknowledged, receiver awaiting file data / EOF
C04Silent(T) ==
  IF T.cuts = <<>> THEN {} ELSE
  LET ls == T.ev[LastIdx(OfSide(T, "S"))].post
      dsIdx == OfSide(T, "D")
      ld == IF dsIdx = {} THEN [state |-> "IDLE", step |-> "IDLE", deferred |-> FALSE] ELSE T.ev[LastIdx(dsIdx)].post
      sOk == ls.state = "IDLE" \/ (ls.step = "WAITING_FOR_FINISHED" /\ EffModeT(T) = "ACK")
      dOk == ld.state = "IDLE" \/ (ld.step \in {"RECEIVING_FILE_DATA", "WAITING_FOR_METADATA"} /\ ~ld.deferred) IN
  (IF ~sOk THEN {V("C04", "sender-still-busy-although-the-peer-is-silent", Len(T.ev), Kf(T), ls.step, "")} ELSE {})
  \cup (IF ~dOk THEN {V("C04", "receiver-still-busy-although-the-peer-is-silent", Len(T.ev), Kf(T), ld.step, "")} ELSE {})
\* no PDU is re-sent without bound: per transaction at most 2 N EOF PDUs / Finished PDUs (N per condition code phase)
C04Bound(T) ==
  UNION { { V("C04", "more-eof-pdus-than-two-full-retry-rounds", 0, Kf(T), "", "") :
            x \in { y \in {1} : Cardinality(EmitIdx(T, "S", qv, "EOF", Len(T.ev) + 1)) > 2 * T.cfg.ackLim } }
          \cup { V("C04", "more-finished-pdus-than-two-full-retry-rounds", 0, Kf(T), "", "") :
                 x \in { y \in {1} : Cardinality(EmitIdx(T, "D", qv, "FIN", Len(T.ev) + 1)) > 2 * T.cfg.ackLim } }
          : qv \in SeqNums(T) }
C04(T) ==
  IF ~Has(T, "C04") THEN {} ELSE
  C04Ack(T, "S", "EOF", "WAITING_FOR_EOF_ACK", T.cfg.ackLim) \cup C04Ack(T, "D", "FIN", "WAITING_FOR_FINISHED_ACK", T.cfg.ackLim)
  \cup C04Nak(T) \cup (IF T.kind = "pair" THEN C04Silent(T) \cup C04Bound(T) ELSE {})

\* ===== C16: all file access goes through the user-supplied virtual filestore =====
\* T.ev: the execution on the native filestore; T.ev2: the same schedule on a purely in-memory filestore whose paths do not
\* exist on the host.  Both must agree event by event in everything observable, and the host must stay untouched.
C16(T) ==
  IF ~Has(T, "C16") THEN {} ELSE
  (IF Len(T.ev) # Len(T.ev2) THEN {V("C16", "in-memory-run-has-a-different-number-of-events", PMin(Len(T.ev), Len(T.ev2)), Kf(T), "", "")} ELSE {})
  \cup UNION { LET a == T.ev[i]  b == T.ev2[i] IN
               IF a.side # b.side \/ a.call # b.call THEN {V("C16", "in-memory-run-takes-a-different-course", i, Kf(T), "", "")}
               ELSE IF a.side = "E" THEN {}
               ELSE { V("C16", "in-memory-run-differs-from-native-run", i, Kf(T), c, "") :
                      c \in (IF a.out # b.out THEN {"out"} ELSE {}) \cup (IF a.ind # b.ind THEN {"ind"} ELSE {})
                            \cup (IF a.flt # b.flt THEN {"flt"} ELSE {}) \cup (IF a.exc # b.exc THEN {"exc"} ELSE {})
                            \cup (IF a.ret # b.ret THEN {"ret"} ELSE {}) \cup (IF a.post # b.post THEN {"post"} ELSE {})
                            \cup (IF ToSet(a.fs) # ToSet(b.fs) THEN {"fs"} ELSE {}) }
                    \cup (IF b.hostopen # <<>> THEN {V("C16", "host-path-accessed-behind-the-in-memory-filestore", i, Kf(T), b.hostopen[1], "")} ELSE {})
               : i \in 1..PMin(Len(T.ev), Len(T.ev2)) }
  \cup (IF T.hostTouched THEN {V("C16", "host-file-system-touched-by-the-in-memory-run", 0, Kf(T), "", "")} ELSE {})

\* ===== C11: transactions are isolated from earlier transactions and other handler instances =====
\* T.ev: the transaction on freshly constructed handlers; T.ev2: the same transaction (same request, link behaviour, relative
\* timing) on handler objects with a history of earlier transactions / next to busy sibling instances.  Everything observable
\* must agree event by event; the clock readings differ by a constant and are not compared.
\* (the file_size property of a handler without a transaction - 0 when fresh, None after a reset - is not behaviour of a transaction)
Pub11(x) == [x EXCEPT !.fileSize = IF x.tidSet THEN @ ELSE 0]
C11(T) ==
  IF ~Has(T, "C11") THEN {} ELSE
  (IF Len(T.ev) # Len(T.ev2) THEN {V("C11", "reused-handler-run-has-a-different-number-of-events", PMin(Len(T.ev), Len(T.ev2)), Kf(T), "", "")} ELSE {})
  \cup UNION { LET a == T.ev[i]  b == T.ev2[i] IN
               IF a.side # b.side \/ a.call # b.call THEN {V("C11", "reused-handler-run-takes-a-different-course", i, Kf(T), "", "")}
               ELSE IF a.side = "E" THEN {}
               ELSE { V("C11", "behaviour-depends-on-handler-history-or-sibling-instances", i, Kf(T), c, "") :
                      c \in (IF a.out # b.out THEN {"out"} ELSE {}) \cup (IF a.ind # b.ind THEN {"ind"} ELSE {})
                            \cup (IF a.flt # b.flt THEN {"flt"} ELSE {}) \cup (IF a.exc # b.exc THEN {"exc"} ELSE {})
                            \cup (IF a.ret # b.ret THEN {"ret"} ELSE {}) \cup (IF Pub11(a.post) # Pub11(b.post) THEN {"post"} ELSE {})
                            \cup (IF Pub11(a.pre) # Pub11(b.pre) THEN {"pre"} ELSE {})
                            \cup (IF ToSet(a.fs) # ToSet(b.fs) THEN {"fs"} ELSE {}) }
               : i \in 1..PMin(Len(T.ev), Len(T.ev2)) }

\* ===== C09 (protocol side): the checksum the source places in its EOF PDU is that of the bytes it has sent =====
\* (the filestore's calculation itself is judged by spec/ChecksumTrace.tla; here the file may grow while it is being sent)
C09(T) ==
  IF ~Has(T, "C09") THEN {} ELSE
  UNION { LET st == StreamOf(T, qv) IN
          { V("C09", "eof-checksum-is-not-that-of-the-bytes-sent", st[k].i, Kf(T), st[k].p.cond, "") :
            k \in { k \in DOMAIN st : /\ st[k].p.t = "EOF" /\ st[1].p.t = "MD" /\ ~PutBefore(T, st[1].i).mdOnly
                                      /\ LET f == CurFile(T, st[k].i)  size == st[k].p.size IN
                                         /\ size <= Len(f)
                                         /\ (st[1].p.chkType # "MODULAR" \/ size = Len(f))
                                         /\ st[k].p.chk # FileChecksum(st[1].p.chkType, f, size) } }
          : qv \in SeqNums(T) }

Violations(T) == C01(T) \cup C02(T) \cup C03(T) \cup C10(T) \cup C07(T) \cup C08(T) \cup C19(T) \cup C05(T) \cup C06(T) \cup C15(T) \cup C12(T) \cup C13(T) \cup C14(T) \cup C14Table(T) \cup C04(T) \cup C16(T) \cup C11(T) \cup C09(T)
====

---- MODULE ChecksumTrace ----
(***************************************************************************)
(* C09, code -> spec: vectors recorded from the real filestore             *)
(* (calculate_checksum / verify_checksum) are judged against the           *)
(* first-principles definitions of Checksum.tla (bit-serial CRC, word sum).*)
(* One VERDICT line per batch entry; total.                                *)
(***************************************************************************)
EXTENDS Naturals, Sequences, FiniteSets, TLC, Json, IOUtils, Checksum
Vecs == JsonDeserialize(IOEnv.TRACE_FILE)
VARIABLES i
Init == i = 1
\* the statement demands the modular checksum "for the modular type" (of the file); the library's always covers the whole
\* file (observation F17), so a true prefix is judged for the CRC types only
Judged(v) == v.type # "MODULAR" \/ v.n = Len(v.data)
Want(v) == FileChecksum(v.type, v.data, v.n)
Clauses(v) ==
  (IF v.exc # "none" THEN {"raised-" \o v.exc} ELSE {})
  \cup (IF v.exc = "none" /\ Judged(v) /\ v.got # Want(v) THEN {"wrong-checksum"} ELSE {})
  \cup (IF v.exc = "none" /\ Judged(v) /\ ~v.verifyGood THEN {"verify-rejects-the-correct-value"} ELSE {})
  \cup (IF v.exc = "none" /\ Judged(v) /\ v.verifyBad THEN {"verify-accepts-a-wrong-value"} ELSE {})
  \cup (IF v.exc = "none" /\ v.got # v.got1 THEN {"result-depends-on-the-chunk-length"} ELSE {})
Next == /\ i <= Len(Vecs)
        /\ PrintT(<<"VERDICT", Vecs[i].id, Clauses(Vecs[i])>>)
        /\ i' = i + 1
Spec == Init /\ [][Next]_i
====

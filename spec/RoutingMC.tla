---- MODULE RoutingMC ----
(***************************************************************************)
(* C20, model side: over every PDU kind x acknowledged directive x header  *)
(* (direction, mode, id width, CRC flag) x handler situation (idle / busy  *)
(* in every step, either mode), routing and admission agree:               *)
(*   a PDU routed to a handler is never refused by it as belonging to the  *)
(*   other handler, and a PDU routed to the other handler is always        *)
(*   refused (with a protocol exception).                                  *)
(* The admission relations are the ones of the transducers SrcCore/DstCore.*)
(***************************************************************************)
EXTENDS Routing, TLC
S == INSTANCE SrcCore
D == INSTANCE DstCore
Cfg == [sId |-> 1, dId |-> 2, sIdW |-> 2, dIdW |-> 2, seq0 |-> 0]
SrcSteps == {"IDLE", "TRANSACTION_START", "SENDING_METADATA", "SENDING_FILE_DATA", "RETRANSMITTING", "SENDING_EOF", "WAITING_FOR_EOF_ACK",
             "WAITING_FOR_FINISHED", "SENDING_ACK_OF_FINISHED", "NOTICE_OF_COMPLETION"}
DstSteps == {"IDLE", "RECEIVING_FILE_DATA", "RECV_FILE_DATA_WITH_CHECK_LIMIT_HANDLING", "SENDING_EOF_ACK_PDU", "WAITING_FOR_METADATA",
             "WAITING_FOR_MISSING_DATA", "TRANSFER_COMPLETION", "SENDING_FINISHED_PDU", "WAITING_FOR_FINISHED_ACK"}
Hdr(dir, mode, w, crc) == [dir |-> dir, mode |-> mode, crc |-> crc, lf |-> FALSE, sw |-> w, sv |-> 1, dw |-> w, dv |-> 2, qw |-> 2, qv |-> 0]
Pdu(kind, acked, h) == [t |-> kind, acked |-> acked, h |-> h]
Points == { <<k, a, dir, m, w, c>> : k \in Kinds, a \in {"EOF", "FIN"}, dir \in {"TR", "TS"}, m \in {"ACK", "UNACK"}, w \in {1, 2, 4, 8}, c \in BOOLEAN }
\* a busy source handler in a given step and mode (the fields the admission check reads)
SrcH(step, mode) == [S!InitS([sIdW |-> 2, sId |-> 1, seq0 |-> 0]) EXCEPT !.state = "BUSY", !.step = step, !.cfgSet = TRUE, !.hdr.mode = mode,
                                                                         !.hdr.qv = 0, !.req.dId = 2]
DstH(step, mode) == IF step = "IDLE" THEN D!InitD({})
                    ELSE [D!InitD({}) EXCEPT !.state = "BUSY", !.step = step, !.p.hdr.mode = mode]
\* the direction flag proper to the PDU's destination (otherwise valid addressing)
DirFor(side) == IF side = "S" THEN "TS" ELSE "TR"
Agreement ==
  \A pt \in Points :
    LET k == pt[1]  a == pt[2]  r == Route(k, a) IN
    /\ r \in {"S", "D"}
    /\ \A step \in SrcSteps \ {"IDLE"}, hm \in {"ACK", "UNACK"} :
         LET res == S!AdmitS(SrcH(step, hm), Cfg, Pdu(k, a, Hdr(DirFor("S"), pt[4], pt[5], pt[6])))[1] IN
         /\ (r = "S" => res \notin WrongSide)
         /\ (r = "D" => res \in ProtocolRefusals)
    /\ \A step \in DstSteps, hm \in {"ACK", "UNACK"} :
         LET res == D!AdmitD(DstH(step, hm), Cfg, Pdu(k, a, Hdr(DirFor("D"), pt[4], pt[5], pt[6])))[1] IN
         /\ (r = "D" => res \notin WrongSide)
         /\ (r = "S" => res \in ProtocolRefusals)
\* the points where routing and admission disagree (empty iff Agreement)
Disagree ==
  { <<"S", pt[1], pt[2], step, hm, pt[4], S!AdmitS(SrcH(step, hm), Cfg, Pdu(pt[1], pt[2], Hdr("TS", pt[4], pt[5], pt[6])))[1]>> :
      pt \in Points, step \in SrcSteps \ {"IDLE"}, hm \in {"ACK", "UNACK"} }
  \cup { <<"D", pt[1], pt[2], step, hm, pt[4], D!AdmitD(DstH(step, hm), Cfg, Pdu(pt[1], pt[2], Hdr("TR", pt[4], pt[5], pt[6])))[1]>> :
      pt \in Points, step \in DstSteps, hm \in {"ACK", "UNACK"} }
Bad == { d \in Disagree : LET r == Route(d[2], d[3]) IN
                            \/ (r = d[1] /\ d[7] \in WrongSide) \/ (r # d[1] /\ d[7] \notin ProtocolRefusals) }
ASSUME Bad = {} \/ PrintT(<<"BAD", Bad>>) = FALSE
ASSUME Agreement
ASSUME PrintT(<<"POINTS", Cardinality(Points), Cardinality(SrcSteps) + Cardinality(DstSteps)>>)
VARIABLE x
Spec == x = 0 /\ [][FALSE]_x
====

SPECIFICATION Spec
CONSTANT MaxOff = 5
CONSTANT EmitTransitions = TRUE
ACTION_CONSTRAINT Emit
VIEW View
CHECK_DEADLOCK FALSE

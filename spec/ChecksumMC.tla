---- MODULE ChecksumMC ----
(***************************************************************************)
(* C09, model side: the chunked checksum calculation of the filestore      *)
(* (read chunk after chunk up to the requested prefix, feed the register)  *)
(* as a small state machine.  Invariant: when the loop is over, the        *)
(* register equals the one-shot checksum of the prefix - for every         *)
(* content over a small alphabet, every prefix length and every positive   *)
(* chunk length, i.e. the result never depends on the chunk length.        *)
(* With Emit, every (type, content, prefix, chunk) point is printed with   *)
(* its digest so that the harness runs it through the real filestore.      *)
(***************************************************************************)
EXTENDS Naturals, Sequences, FiniteSets, TLC, Json, Checksum
CONSTANTS Alphabet, MaxLen, Emit
VARIABLES type, s, n, chunk, off, reg
vars == <<type, s, n, chunk, off, reg>>
Strings == UNION { [1..k -> Alphabet] : k \in 0..MaxLen }
PolyOf(t) == IF t = "CRC32" THEN Poly32 ELSE Poly32C
Init == /\ type \in {"CRC32", "CRC32C"} /\ s \in Strings /\ n \in 0..MaxLen /\ n <= Len(s) /\ chunk \in 1..(MaxLen + 1)
        /\ off = 0 /\ reg = CrcInit
ReadChunk == /\ off < n
             /\ LET len == IF chunk < n - off THEN chunk ELSE n - off IN
                /\ reg' = CrcFeed(PolyOf(type), reg, SubSeq(s, off + 1, off + len))
                /\ off' = off + len
             /\ UNCHANGED <<type, s, n, chunk>>
Spec == Init /\ [][ReadChunk]_vars
Done == off >= n
ChunkIndependent == Done => CrcFinal(reg) = Crc(PolyOf(type), Prefix(s, n))
\* known answers (the "check" values of the CRC catalogue for "123456789"): CRC-32 = CBF43926, CRC-32C = E3069283
ASSUME Crc(Poly32, <<49, 50, 51, 52, 53, 54, 55, 56, 57>>) = <<52212, 14630>>
ASSUME Crc(Poly32C, <<49, 50, 51, 52, 53, 54, 55, 56, 57>>) = <<58118, 37507>>
ASSUME Modular(<<1, 2, 3, 4, 5>>) = <<1538, 772>>   \* 0x01020304 + 0x05000000
EmitPoint == (Emit /\ Done) => PrintT("VEC" \o ToJson([type |-> type, data |-> s, n |-> n, chunk |-> chunk, want |-> CrcFinal(reg)]))
====

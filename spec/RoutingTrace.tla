---- MODULE RoutingTrace ----
(***************************************************************************)
(* C20, code -> spec: what the real routing helper, the real handlers      *)
(* (offered each PDU in every step of nominal transfers) and the real      *)
(* acknowledge_inactive_eof_pdu did, judged against Routing.tla.           *)
(***************************************************************************)
EXTENDS Routing, TLC, Json, IOUtils
Recs == JsonDeserialize(IOEnv.TRACE_FILE)
VARIABLES i
Clauses(r) ==
  IF r.k = "route" THEN
     (IF r.exc # "none" THEN {"routing-helper-raised"} ELSE IF r.got # Route(r.kind, r.acked) THEN {"routed-to-the-wrong-handler"} ELSE {})
  ELSE IF r.k = "offer" THEN
     LET rt == Route(r.kind, r.acked) IN
     (IF rt = r.side /\ r.exc \in WrongSide THEN {"handler-refuses-a-pdu-routed-to-it-as-belonging-to-the-other-side"} ELSE {})
     \cup (IF rt # r.side /\ r.exc \notin ProtocolRefusals THEN {"handler-accepts-a-pdu-routed-to-the-other-side"} ELSE {})
  ELSE \* acknowledge_inactive_eof_pdu
     (IF r.status = "ACTIVE" /\ r.exc # "ValueError" THEN {"active-status-not-refused"} ELSE {})
     \cup (IF r.status \in NonActive /\ (r.exc # "none" \/ r.ack.t # "ACK" \/ r.ack.acked # "EOF" \/ r.ack.cond # r.cond \/ r.ack.tstat # r.status
                                        \/ r.ack.h.dir # "TS" \/ r.ack.h.sv # r.h.sv \/ r.ack.h.dv # r.h.dv \/ r.ack.h.qv # r.h.qv
                                        \/ r.ack.h.mode # r.h.mode \/ r.ack.h.crc # r.h.crc \/ r.ack.h.sw # r.h.sw \/ r.ack.rt # "ok")
           THEN {"inactive-eof-acknowledgement-wrong"} ELSE {})
Init == i = 1
Next == /\ i <= Len(Recs) /\ PrintT(<<"VERDICT", Recs[i].id, Clauses(Recs[i])>>) /\ i' = i + 1
Spec == Init /\ [][Next]_i
====

---- MODULE LostSegOps ----
(***************************************************************************)
(* The lost-segment tracker of dest.py (class LostSegmentTracker) as pure  *)
(* operators on the dictionary in iteration order: a sequence of <<s, e>>  *)
(* pairs sorted by start.  Used by the ADT model (LostSeg), by the trace   *)
(* validator (LostSegTrace) and by the destination transducer (DstCore).   *)
(***************************************************************************)
EXTENDS Naturals, Sequences, SequencesExt, FiniteSets

LsAsSet(segs) == { segs[i] : i \in DOMAIN segs }
LsSort(S) == SetToSortSeq(S, LAMBDA a, b : a[1] < b[1])
\* dict.update({s: e}) followed by sorting: replaces an entry with the same start
LsAdd(segs, s, e) == LsSort({ p \in LsAsSet(segs) : p[1] # s } \cup { <<s, e>> })

\* remove_lost_segment: [segs, changed, err]
LsRemove(segs, s, e) ==
  IF e - s = 0 THEN [segs |-> segs, changed |-> FALSE, err |-> FALSE]
  ELSE IF \E p \in LsAsSet(segs) : p[1] = s THEN
     LET end == (CHOOSE p \in LsAsSet(segs) : p[1] = s)[2] IN
     IF e > end THEN [segs |-> segs, changed |-> FALSE, err |-> TRUE]
     ELSE IF e = end THEN [segs |-> LsSort({p \in LsAsSet(segs) : p[1] # s}), changed |-> TRUE, err |-> FALSE]
     ELSE [segs |-> LsSort({p \in LsAsSet(segs) : p[1] # s /\ p[1] # e} \cup {<<e, end>>}), changed |-> TRUE, err |-> FALSE]
  ELSE LET hits == { p \in LsAsSet(segs) : p[1] < s /\ s < p[2] } IN
     IF hits = {} THEN [segs |-> segs, changed |-> FALSE, err |-> FALSE]
     ELSE LET p == CHOOSE q \in hits : \A r \in hits : q[1] <= r[1] IN
       IF e > p[2] THEN [segs |-> segs, changed |-> FALSE, err |-> TRUE]
       ELSE IF e = p[2] THEN [segs |-> LsSort((LsAsSet(segs) \ {p}) \cup {<<p[1], s>>}), changed |-> TRUE, err |-> FALSE]
       ELSE [segs |-> LsSort({q \in LsAsSet(segs) : q # p /\ q[1] # e} \cup {<<p[1], s>>, <<e, p[2]>>}), changed |-> TRUE, err |-> FALSE]

RECURSIVE LsCoal(_, _)
LsCoal(acc, rest) == IF rest = <<>> THEN acc
   ELSE IF acc # <<>> /\ acc[Len(acc)][2] = rest[1][1]
        THEN LsCoal(SubSeq(acc, 1, Len(acc) - 1) \o << <<acc[Len(acc)][1], rest[1][2]>> >>, Tail(rest))
        ELSE LsCoal(Append(acc, rest[1]), Tail(rest))
LsCoalesce(segs) == IF Len(segs) <= 1 THEN segs ELSE LsCoal(<<>>, segs)

\* the set of byte offsets a tracker state denotes (N: an upper bound on every offset)
LsRange(s, e, N) == { x \in 0..N : s <= x /\ x < e }
LsDenote(segs, N) == UNION { LsRange(segs[i][1], segs[i][2], N) : i \in DOMAIN segs }
====

---- MODULE CfdpCfg ----
(***************************************************************************)
(* World configurations (same record shape as harness/world.py DEFAULT_CFG)*)
(* and the configuration families the model-checking instances sweep.      *)
(***************************************************************************)
EXTENDS Naturals, Sequences, FiniteSets, SequencesExt
IndAll == [eofSent |-> TRUE, eofRecv |-> TRUE, segRecv |-> TRUE, finished |-> TRUE]
FhDefault ==
  [POSITIVE_ACK_LIMIT_REACHED |-> "cancel", NAK_LIMIT_REACHED |-> "cancel", CHECK_LIMIT_REACHED |-> "cancel",
   FILE_CHECKSUM_FAILURE |-> "ignore", FILE_SIZE_ERROR |-> "cancel", FILESTORE_REJECTION |-> "cancel",
   CANCEL_REQUEST_RECEIVED |-> "cancel", INACTIVITY_DETECTED |-> "cancel", KEEP_ALIVE_LIMIT_REACHED |-> "cancel",
   INVALID_TRANSMISSION_MODE |-> "cancel", UNSUPPORTED_CHECKSUM_TYPE |-> "ignore"]
DefaultCfg ==
  [id |-> 0, mode |-> "ACK", closure |-> FALSE, putMode |-> "none", putClosure |-> "none", segLen |-> 4, maxPkt |-> 512,
   crc |-> FALSE, chk |-> "CRC32", ackInt |-> 1000, ackIntD |-> 0, ackLim |-> 2, nakInt |-> 1000, nakLim |-> 2, chkInt |-> 1000,
   chkLim |-> 2, immNak |-> TRUE, disp |-> FALSE, sIdW |-> 2, dIdW |-> 2, sId |-> 1, dId |-> 2, seqW |-> 2, seq0 |-> 0,
   indS |-> IndAll, indD |-> IndAll, fhS |-> FhDefault, fhD |-> FhDefault,
   file |-> <<48, 49, 50, 51, 52, 53, 54, 55, 56, 57, 65, 66>>, mdOnly |-> FALSE, srcName |-> "src.bin",
   dstName |-> "dst.bin", dstShape |-> "file", dstOld |-> <<>>, msgs |-> <<>>, xopts |-> <<>>, memfs |-> FALSE, more |-> <<>>]
\* number a set of configurations (the id is how the harness refers to one)
Numbered(set) == LET q == SetToSeq(set) IN { [q[i] EXCEPT !.id = i] : i \in DOMAIN q }
FileOf(n) == [i \in 1..n |-> 10 + i]
====
